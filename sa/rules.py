"""Shared helpers for rules: boolean formulas, truth tables, forwarding."""
from __future__ import annotations

import ast
import itertools
from typing import Any, Callable, Iterable, Optional

from .model import AnalysisError, Repo, kwarg
from .tab import Valuation, evalf


def normalize_test(expr: ast.AST) -> ast.AST:
    """Behaviour-preserving spellings of the same test are mapped to one form:
    len(X) > 0 / != 0 / >= 1  ->  X ;  len(X) == 0  ->  not X ;
    S.find(x) != -1 / >= 0  ->  x in S ;  S.find(x) == -1 / < 0  ->  x not in S ;  S.count(x) > 0 -> x in S."""
    if isinstance(expr, ast.Compare) and len(expr.ops) == 1:
        left, op, right = expr.left, expr.ops[0], expr.comparators[0]
        if isinstance(left, ast.Call) and isinstance(right, (ast.Constant, ast.UnaryOp)):
            try:
                rv = ast.literal_eval(right)
            except Exception:
                rv = None
            fname = ast.unparse(left.func)
            if fname == "len" and len(left.args) == 1 and isinstance(rv, int):
                if (isinstance(op, ast.Gt) and rv == 0) or (isinstance(op, ast.NotEq) and rv == 0) or (isinstance(op, ast.GtE) and rv == 1):
                    return left.args[0]
                if (isinstance(op, ast.Eq) and rv == 0) or (isinstance(op, ast.Lt) and rv == 1):
                    return ast.UnaryOp(op=ast.Not(), operand=left.args[0])
            if isinstance(left.func, ast.Attribute) and left.func.attr in ("find", "count") and len(left.args) == 1 and isinstance(rv, int):
                member = ast.Compare(left=left.args[0], ops=[ast.In()], comparators=[left.func.value])
                absent = ast.Compare(left=left.args[0], ops=[ast.NotIn()], comparators=[left.func.value])
                if left.func.attr == "find":
                    if (isinstance(op, ast.NotEq) and rv == -1) or (isinstance(op, ast.GtE) and rv == 0) or (isinstance(op, ast.Gt) and rv == -1):
                        return member
                    if (isinstance(op, ast.Eq) and rv == -1) or (isinstance(op, ast.Lt) and rv == 0):
                        return absent
                else:
                    if (isinstance(op, ast.Gt) and rv == 0) or (isinstance(op, ast.GtE) and rv == 1) or (isinstance(op, ast.NotEq) and rv == 0):
                        return member
                    if isinstance(op, ast.Eq) and rv == 0:
                        return absent
    return expr


def bool_formula(expr: ast.AST | str, atom: Callable[[str, ast.AST], Any]) -> Any:
    """Turn a boolean-valued expression into a formula over atoms.

    Understands and/or/not, bool(x), any/all over literal tuples/lists and over
    generator expressions whose iterable is a literal tuple/list, IfExp, `^`.
    Leaves are named by `atom(text, node)` (None -> '?text').
    """
    if isinstance(expr, str):
        expr = ast.parse(expr, mode="eval").body
    e = normalize_test(expr)
    if isinstance(e, ast.Constant) and isinstance(e.value, bool):
        return e.value
    if isinstance(e, ast.BoolOp):
        op = "and" if isinstance(e.op, ast.And) else "or"
        return (op,) + tuple(bool_formula(v, atom) for v in e.values)
    if isinstance(e, ast.UnaryOp) and isinstance(e.op, ast.Not):
        return ("not", bool_formula(e.operand, atom))
    if isinstance(e, ast.BinOp) and isinstance(e.op, ast.BitXor):
        return ("xor", bool_formula(e.left, atom), bool_formula(e.right, atom))
    if isinstance(e, ast.IfExp):
        c = bool_formula(e.test, atom)
        return ("or", ("and", c, bool_formula(e.body, atom)),
                ("and", ("not", c), bool_formula(e.orelse, atom)))
    if isinstance(e, ast.Call) and isinstance(e.func, ast.Name) and len(e.args) == 1 and not e.keywords:
        fn = e.func.id
        arg = e.args[0]
        if fn == "bool":
            return bool_formula(arg, atom)
        if fn in ("any", "all"):
            op = "or" if fn == "any" else "and"
            if isinstance(arg, (ast.Tuple, ast.List)):
                return (op,) + tuple(bool_formula(x, atom) for x in arg.elts)
            if isinstance(arg, ast.GeneratorExp) and len(arg.generators) == 1:
                gen = arg.generators[0]
                it = gen.iter
                # set((a, b)) / list([a, b]) / {a, b}: order-insensitive for any/all
                while isinstance(it, ast.Call) and isinstance(it.func, ast.Name) and it.func.id in ("set", "list", "tuple", "frozenset") \
                        and len(it.args) == 1:
                    it = it.args[0]
                if isinstance(it, (ast.Tuple, ast.List, ast.Set)) and isinstance(gen.target, ast.Name) and not gen.ifs:
                    parts = []
                    for x in it.elts:
                        sub = _subst_name(arg.elt, gen.target.id, x)
                        parts.append(bool_formula(sub, atom))
                    return (op,) + tuple(parts)
    text = ast.unparse(e)
    a = atom(text, e)
    return a if a is not None else "?" + text


def _subst_name(expr: ast.AST, name: str, repl: ast.AST) -> ast.AST:
    import copy

    class T(ast.NodeTransformer):
        def visit_Name(self, node):
            if node.id == name and isinstance(node.ctx, ast.Load):
                return copy.deepcopy(repl)
            return node

    return T().visit(copy.deepcopy(expr))


def atoms_of(f: Any) -> list[str]:
    out: list[str] = []

    def rec(g):
        if isinstance(g, bool):
            return
        if isinstance(g, str):
            if g not in out:
                out.append(g)
            return
        for h in g[1:]:
            rec(h)

    rec(f)
    return out


def equivalent(f: Any, g: Any, limit: int = 20) -> Optional[dict[str, bool]]:
    """None if f == g on all valuations, else a distinguishing valuation."""
    atoms = sorted(set(atoms_of(f)) | set(atoms_of(g)))
    if len(atoms) > limit:
        raise AnalysisError(f"too many atoms for a truth table: {len(atoms)}")
    for bits in itertools.product([False, True], repeat=len(atoms)):
        d = dict(zip(atoms, bits))
        if evalf(f, Valuation(d)) != evalf(g, Valuation(d)):
            return d
    return None


def find_calls(fn: ast.AST, pred: Callable[[ast.Call, str], bool]) -> list[ast.Call]:
    out = []
    for n in ast.walk(fn):
        if isinstance(n, ast.Call) and pred(n, ast.unparse(n.func)):
            out.append(n)
    return out


def param_names(fn: ast.FunctionDef) -> list[str]:
    a = fn.args
    return [x.arg for x in a.posonlyargs + a.args + a.kwonlyargs]


def arg_for(call: ast.Call, callee: ast.FunctionDef, param: str, skip_self: bool = True) -> Optional[ast.AST]:
    """The argument expression bound to *param* at *call* (positional or keyword)."""
    kw = kwarg(call, param)
    if kw is not None:
        return kw
    names = param_names(callee)
    if skip_self and names and names[0] in ("self", "cls"):
        names = names[1:]
    if param in names:
        idx = names.index(param)
        if idx < len(call.args) and not any(isinstance(a, ast.Starred) for a in call.args[: idx + 1]):
            return call.args[idx]
    return None


def single_assign_value(fn: ast.FunctionDef, name: str) -> Optional[ast.AST]:
    """If *name* is assigned exactly once in fn (plain Assign), its value."""
    vals = []
    for n in ast.walk(fn):
        if isinstance(n, ast.Assign):
            for t in n.targets:
                if isinstance(t, ast.Name) and t.id == name:
                    vals.append(n.value)
                elif isinstance(t, (ast.Tuple, ast.List)) and any(isinstance(m, ast.Name) and m.id == name for m in ast.walk(t)):
                    vals.append(None)  # bound by unpacking: not a plain single assignment
        elif isinstance(n, (ast.With, ast.AsyncWith)):
            for item in n.items:
                if item.optional_vars is not None and any(isinstance(m, ast.Name) and m.id == name for m in ast.walk(item.optional_vars)):
                    vals.append(None)
        elif isinstance(n, ast.ExceptHandler) and n.name == name:
            vals.append(None)
        elif isinstance(n, (ast.AnnAssign, ast.AugAssign, ast.NamedExpr)):
            t = n.target
            if isinstance(t, ast.Name) and t.id == name:
                vals.append(getattr(n, "value", None))
        elif isinstance(n, (ast.For, ast.comprehension)):
            for m in ast.walk(n.target):
                if isinstance(m, ast.Name) and m.id == name:
                    vals.append(None)
    if len(vals) == 1 and vals[0] is not None:
        return vals[0]
    return None


def resolve_local(fn: ast.FunctionDef, expr: ast.AST, depth: int = 4) -> ast.AST:
    """Follow single-assignment locals to their defining expression."""
    cur = expr
    for _ in range(depth):
        if isinstance(cur, ast.Name):
            val = single_assign_value(fn, cur.id)
            if val is None:
                return cur
            cur = val
        else:
            break
    return cur


def expr_text(fn: ast.FunctionDef, expr: ast.AST) -> str:
    return ast.unparse(resolve_local(fn, expr))


def resolve_deep(fn: ast.FunctionDef, expr: ast.AST | str, depth: int = 6) -> ast.AST:
    """Substitute every single-assignment local (at any nesting level) by its defining expression: the result does
    not depend on which sub-expressions the author named.  Parameters, loop variables and multiply-assigned names stay."""
    import copy
    if isinstance(expr, str):
        expr = ast.parse(expr, mode="eval").body
    params = {a.arg for a in fn.args.posonlyargs + fn.args.args + fn.args.kwonlyargs}

    class T(ast.NodeTransformer):
        def __init__(self, left):
            self.left = left

        def visit_Name(self, n):
            if isinstance(n.ctx, ast.Load) and n.id not in params and self.left > 0:
                v = single_assign_value(fn, n.id)
                if v is not None and not isinstance(v, (ast.List, ast.Dict, ast.Set)) or (v is not None and getattr(v, "elts", None)):
                    return T(self.left - 1).visit(copy.deepcopy(v))
            return n

        def visit_Lambda(self, n):
            return n

    out = T(depth).visit(copy.deepcopy(expr))
    ast.fix_missing_locations(out)
    return out


def reaching_value(fn: ast.FunctionDef, use: ast.AST) -> Optional[ast.AST]:
    """The value of the one plain assignment `name = VALUE` that reaches the name node `use`: the closest preceding
    statement of an enclosing block that binds the name.  None when that statement is compound (the binding is conditional),
    when nothing binds the name before the use, or when the use sits in a loop that rebinds the name."""
    name = use.id
    path: list[tuple[list, int]] = []

    def find(block: list) -> bool:
        for i, st in enumerate(block):
            if any(x is use for x in ast.walk(st)):
                path.append((block, i))
                for f in ("body", "orelse", "finalbody"):
                    sub = getattr(st, f, None)
                    if isinstance(sub, list) and find(sub):
                        return True
                for h in getattr(st, "handlers", []) or []:
                    if find(h.body):
                        return True
                return True
        return False

    if not find(fn.body):
        return None
    for block, i in reversed(path):
        st = block[i]
        if isinstance(st, (ast.For, ast.While, ast.AsyncFor)) and any(
                isinstance(x, ast.Name) and x.id == name and isinstance(x.ctx, ast.Store) for x in ast.walk(st)):
            return None
        for prev in reversed(block[:i]):
            binds = [x for x in ast.walk(prev) if isinstance(x, ast.Name) and x.id == name and isinstance(x.ctx, (ast.Store, ast.Del))]
            if not binds:
                continue
            if isinstance(prev, ast.Assign) and len(prev.targets) == 1 and isinstance(prev.targets[0], ast.Name) \
                    and prev.targets[0].id == name:
                return prev.value
            return None
    return None


def deep_text(fn: ast.FunctionDef, expr: ast.AST | str) -> str:
    return ast.unparse(resolve_deep(fn, expr))


def squash(text: str) -> str:
    import re
    return re.sub(r"\s+", " ", text).strip()


def frag(source: str, fragment: str, locals_: Iterable[str] = ()) -> Optional[dict[str, str]]:
    """Rename-invariant fragment search.

    `fragment` is written with today's local variable names; every name listed in `locals_` may have been
    renamed consistently (first occurrence binds, later occurrences must agree; different fragment locals
    must map to different names).  Both texts are whitespace-squashed.  Returns the renaming or None."""
    import re
    src = squash(source)
    fr = squash(fragment)
    names = sorted(set(locals_), key=len, reverse=True)
    if not names:
        return {} if fr in src else None
    token = re.compile(r"\b(" + "|".join(re.escape(n) for n in names) + r")\b")
    out = []
    pos = 0
    seen: dict[str, str] = {}
    for m in token.finditer(fr):
        # attribute accesses (`x.name`) and keyword names (`name=`) are not locals
        before = fr[:m.start()]
        after = fr[m.end():]
        if before.endswith(".") or (after.startswith("=") and not after.startswith("==")):
            continue
        out.append(re.escape(fr[pos:m.start()]))
        n = m.group(1)
        g = "L" + str(names.index(n))
        if n in seen:
            out.append(f"(?P={g})")
        else:
            seen[n] = g
            out.append(f"(?P<{g}>[A-Za-z_]\\w*)")
        pos = m.end()
    out.append(re.escape(fr[pos:]))
    rx = re.compile("".join(out))
    for m in rx.finditer(src):
        binding = {n: m.group(g) for n, g in seen.items()}
        if len(set(binding.values())) == len(binding):
            return binding
    return None


def has(fn_or_src, fragment: str, locals_: Iterable[str] = ()) -> bool:
    src = fn_or_src if isinstance(fn_or_src, str) else ast.unparse(fn_or_src)
    return frag(src, fragment, locals_) is not None


def unstrip(node: ast.AST | str, fold_to_iterable: bool = True) -> ast.AST:
    """Forget blank-stripping of string elements: `v.strip()` -> v, `map(str.strip, X)` -> X, and an identity
    comprehension over X -> X (set comprehension -> set(X) unless fold_to_iterable).  Used where a rule asks WHICH value
    feeds a parameter, not whether its surrounding blanks were removed."""
    import copy
    if isinstance(node, str):
        node = ast.parse(node, mode="eval").body

    class U(ast.NodeTransformer):
        def visit_Call(self, c):
            self.generic_visit(c)
            if isinstance(c.func, ast.Attribute) and c.func.attr == "strip" and not c.args and not c.keywords:
                return c.func.value
            if ast.unparse(c.func) == "map" and len(c.args) == 2 and ast.unparse(c.args[0]) == "str.strip":
                return c.args[1]
            return c

        def _comp(self, c, wrap):
            self.generic_visit(c)
            g = c.generators
            if (len(g) == 1 and not g[0].ifs and isinstance(c.elt, ast.Name) and isinstance(g[0].target, ast.Name)
                    and c.elt.id == g[0].target.id):
                if fold_to_iterable or wrap is None:
                    return g[0].iter
                return ast.Call(func=ast.Name(id=wrap, ctx=ast.Load()), args=[g[0].iter], keywords=[])
            return c

        def visit_SetComp(self, c):
            return self._comp(c, "set")

        def visit_ListComp(self, c):
            return self._comp(c, "list")

        def visit_GeneratorExp(self, c):
            return self._comp(c, None)

    out = U().visit(copy.deepcopy(node))
    ast.fix_missing_locations(out)
    return out


def path_norm(text: str) -> str:
    """One spelling for expressions that build a path: `X.joinpath(a, b)` = `X / a / b`, `X / "a/b"` = `X / "a" / "b"`,
    `X.absolute()` = X (the same file - unlike `.resolve()`, which follows symbolic links and is kept)."""
    try:
        node = ast.parse(text, mode="eval").body
    except SyntaxError:
        return text

    class T(ast.NodeTransformer):
        def visit_Call(self, n):
            self.generic_visit(n)
            if isinstance(n.func, ast.Attribute) and n.func.attr == "joinpath" and n.args and not n.keywords \
                    and not any(isinstance(a, ast.Starred) for a in n.args):
                out = n.func.value
                for a in n.args:
                    out = ast.BinOp(left=out, op=ast.Div(), right=a)
                return self.visit(out)
            if isinstance(n.func, ast.Attribute) and n.func.attr == "absolute" and not n.args and not n.keywords:
                return n.func.value
            return n

        def visit_BinOp(self, n):
            self.generic_visit(n)
            if isinstance(n.op, ast.Div) and isinstance(n.right, ast.Constant) and isinstance(n.right.value, str) and "/" in n.right.value.strip("/"):
                out = n.left
                for part in [p for p in n.right.value.split("/") if p]:
                    out = ast.BinOp(left=out, op=ast.Div(), right=ast.Constant(value=part))
                return out
            return n

    return ast.unparse(ast.fix_missing_locations(T().visit(node)))
