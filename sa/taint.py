"""E8 - order taint: values whose ORDER comes from a set, the file system or an unordered pool
must not reach a content-affecting sink without an order canoniser.

Flow-insensitive per function, context-insensitive across functions (return and parameter summaries,
iterated to a fixpoint).  Types come from mypy (sa/typed.py).
"""
from __future__ import annotations

import ast
import re
from dataclasses import dataclass
from typing import Optional

from .callgraph import CallGraph
from .model import Repo, parent_of, walk_no_nested
from .typed import TypeFacts

FS_ORDER = {"os.walk", "os.listdir", "os.scandir", "glob.glob", "glob.iglob", "pathlib.Path.iterdir", "pathlib.Path.glob",
            "pathlib.Path.rglob", "multiprocessing.pool.Pool.imap_unordered"}
SEQ_BUILDERS = {"builtins.list", "builtins.tuple", "builtins.reversed", "builtins.enumerate", "builtins.map", "builtins.filter",
                "builtins.zip", "itertools.chain", "builtins.iter", "builtins.next", "builtins.dict", "itertools.islice"}
CANONISERS = {"builtins.sorted", "builtins.set", "builtins.frozenset", "builtins.any", "builtins.all", "builtins.len",
              "builtins.min", "builtins.max", "builtins.sum", "builtins.bool", "collections.Counter", "builtins.hash"}
SET_TYPES = ("set[", "frozenset[", "builtins.set", "builtins.frozenset", "typing.AbstractSet[", "AbstractSet[", "Set[")


def _injective_key(key: ast.AST) -> bool:
    """A sort key under which distinct elements never tie: identity, str, repr, tuple-of-everything ... (conservative)."""
    t = ast.unparse(key)
    if t in ("str", "repr", "None", "lambda x: x", "tuple", "os.fspath", "Path.as_posix"):
        return True
    if isinstance(key, ast.Lambda) and len(key.args.args) == 1:
        x = key.args.args[0].arg
        b = ast.unparse(key.body)
        return b in (x, f"str({x})", f"repr({x})", f"{x}.as_posix()", f"{x}.parts", f"({x},)", f"tuple({x})")
    return False


@dataclass
class Sink:
    kind: str          # S1 regex / S2 first element / S3 first match / S4 most_common / S5 rendered text
    function: str
    node: ast.AST
    why: str
    source: str        # where the order comes from


class OrderTaint:
    def __init__(self, repo: Repo, facts: TypeFacts, cg: CallGraph):
        self.repo = repo
        self.facts = facts
        self.cg = cg
        self.ret_tainted: dict[str, str] = {}          # function -> source description
        self.param_tainted: dict[tuple[str, str], str] = {}
        self.local: dict[str, dict[str, str]] = {q: {} for q in repo.functions}
        self.counters: dict[str, dict[str, str]] = {q: {} for q in repo.functions}
        self.set_iterations: list[tuple[str, ast.AST, str]] = []
        self._fix()

    # ------------------------------------------------------------------ helpers
    def is_set_typed(self, e: ast.AST) -> bool:
        t = self.facts.type_of(e) if hasattr(e, "end_col_offset") else None
        return bool(t) and (t.startswith(SET_TYPES) or t.startswith(("Union[set[", "Union[builtins.set")))

    def callee(self, c: ast.Call) -> str:
        return self.facts.callee(c) or ("?" + ast.unparse(c.func))

    def src(self, q: str, e: ast.AST) -> Optional[str]:
        """Description of the order source if the ORDER of e is not determined by the program."""
        if isinstance(e, ast.Name):
            if e.id in self.local[q]:
                return self.local[q][e.id]
            if (q, e.id) in self.param_tainted:
                return self.param_tainted[(q, e.id)]
        if isinstance(e, (ast.Set, ast.SetComp)):
            return f"set built at {self.repo.loc(e)}"
        if isinstance(e, (ast.Name, ast.Attribute, ast.Call, ast.Subscript)) and self.is_set_typed(e):
            if isinstance(e, ast.Call):
                full = self.callee(e)
                if full.split("|")[0] in CANONISERS and full != "builtins.set" and full != "builtins.frozenset":
                    return None
            return f"iteration order of the set `{ast.unparse(e)[:50]}`"
        if isinstance(e, ast.Call):
            full = self.callee(e)
            first = full.split("|")[0]
            last = first.split(".")[-1]
            if first in FS_ORDER or first.replace("pathlib.PosixPath", "pathlib.Path") in FS_ORDER:
                return f"file-system enumeration order ({first})"
            if first in CANONISERS:
                if first == "builtins.sorted" and e.args:
                    key = next((kw.value for kw in e.keywords if kw.arg == "key"), None)
                    if key is not None and not _injective_key(key):
                        # elements that compare equal under the key keep their INPUT order (sorted is stable)
                        inner = self.src(q, e.args[0])
                        if inner:
                            return f"{inner} (ties under key={ast.unparse(key)[:30]} keep that order)"
                return None
            if first == "builtins.dict.keys" or last in ("keys", "values", "items") and isinstance(e.func, ast.Attribute):
                return self.src(q, e.func.value)
            if last == "join" and isinstance(e.func, ast.Attribute) and e.args:
                return self.src(q, e.args[0])
            if first in SEQ_BUILDERS or first.startswith("?") and last in ("list", "tuple"):
                for a in e.args:
                    s = self.src(q, a)
                    if s:
                        return s
                return None
            if last in ("copy", "strip", "format", "lower", "upper", "replace", "split", "splitlines", "as_posix", "render", "simplify"):
                if last == "simplify":
                    return None
                if isinstance(e.func, ast.Attribute):
                    return self.src(q, e.func.value)
            for tgt in [t for t, n in self.cg.edges.get(q, []) if n is e]:
                if tgt in self.ret_tainted:
                    return self.ret_tainted[tgt]
            return None
        if isinstance(e, (ast.ListComp, ast.GeneratorExp, ast.DictComp)):
            for g in e.generators:
                s = self.src(q, g.iter)
                if s:
                    return s
            return None
        if isinstance(e, ast.BinOp) and isinstance(e.op, (ast.Add, ast.Mod)):
            return self.src(q, e.left) or self.src(q, e.right)
        if isinstance(e, ast.JoinedStr):
            for v in e.values:
                if isinstance(v, ast.FormattedValue):
                    s = self.src(q, v.value)
                    if s:
                        return s
            return None
        if isinstance(e, ast.Subscript) and isinstance(e.slice, ast.Slice):
            return self.src(q, e.value)
        if isinstance(e, ast.IfExp):
            return self.src(q, e.body) or self.src(q, e.orelse)
        if isinstance(e, (ast.List, ast.Tuple)):
            for x in e.elts:
                if isinstance(x, ast.Starred):
                    s = self.src(q, x.value)
                    if s:
                        return s
            return None
        if isinstance(e, ast.Starred):
            return self.src(q, e.value)
        return None

    # ------------------------------------------------------------------ fixpoint
    def _fix(self) -> None:
        for _ in range(12):
            changed = False
            for q, fn in self.repo.functions.items():
                if self._function(q, fn):
                    changed = True
            if not changed:
                break

    def _function(self, q: str, fn: ast.FunctionDef) -> bool:
        changed = False
        loc = self.local[q]

        def taint(name: str, s: str) -> None:
            nonlocal changed
            if name not in loc:
                loc[name] = s
                changed = True

        for node in walk_no_nested(fn):
            if isinstance(node, ast.Assign):
                s = self.src(q, node.value)
                for t in node.targets:
                    if isinstance(t, ast.Name):
                        if s:
                            taint(t.id, s)
                        if isinstance(node.value, ast.Call) and self.callee(node.value).endswith("Counter") and node.value.args:
                            cs = self.src(q, node.value.args[0])
                            if cs:
                                self.counters[q][t.id] = cs
            elif isinstance(node, ast.AnnAssign) and node.value is not None and isinstance(node.target, ast.Name):
                s = self.src(q, node.value)
                if s:
                    taint(node.target.id, s)
            elif isinstance(node, ast.For):
                s = self.src(q, node.iter)
                if s:
                    # anything accumulated in iteration order inherits the order
                    for sub in ast.walk(node):
                        if isinstance(sub, ast.Call) and isinstance(sub.func, ast.Attribute) and sub.func.attr in ("append", "extend", "insert") \
                                and isinstance(sub.func.value, ast.Name):
                            taint(sub.func.value.id, s)
                        if isinstance(sub, ast.AugAssign) and isinstance(sub.target, ast.Name) and isinstance(sub.op, ast.Add):
                            t = self.facts.type_of(sub.target) or ""
                            if not t.startswith(("builtins.int", "int")):
                                taint(sub.target.id, s)
                        if isinstance(sub, ast.Assign) and isinstance(sub.targets[0], ast.Subscript) and isinstance(sub.targets[0].value, ast.Name):
                            taint(sub.targets[0].value.id, s)  # dict filled in iteration order
            elif isinstance(node, ast.Return) and node.value is not None:
                s = self.src(q, node.value)
                if s and q not in self.ret_tainted:
                    self.ret_tainted[q] = s
                    changed = True
            elif isinstance(node, (ast.Yield,)) and node.value is not None:
                # a generator yields in the order of the loop that encloses the yield
                p = parent_of(node)
                while p is not None and p is not fn:
                    if isinstance(p, ast.For):
                        s = self.src(q, p.iter)
                        if s and q not in self.ret_tainted:
                            self.ret_tainted[q] = s
                            changed = True
                    p = parent_of(p)
            if isinstance(node, ast.Call):
                # parameter summaries
                for tgt, n in self.cg.edges.get(q, []):
                    if n is node and tgt in self.repo.functions:
                        callee_fn = self.repo.functions[tgt]
                        params = [a.arg for a in callee_fn.args.args]
                        if params and params[0] in ("self", "cls"):
                            params = params[1:]
                        for i, a in enumerate(node.args):
                            s = self.src(q, a)
                            if s and i < len(params) and (tgt, params[i]) not in self.param_tainted:
                                self.param_tainted[(tgt, params[i])] = s
                                changed = True
                        for kw in node.keywords:
                            s = self.src(q, kw.value)
                            if s and kw.arg and (tgt, kw.arg) not in self.param_tainted:
                                self.param_tainted[(tgt, kw.arg)] = s
                                changed = True
        return changed

    # ------------------------------------------------------------------ sinks
    def sinks(self, functions: list[str]) -> list[Sink]:
        out: list[Sink] = []
        for q in functions:
            fn = self.repo.functions[q]
            for node in walk_no_nested(fn):
                if isinstance(node, ast.Call):
                    full = self.callee(node)
                    first = full.split("|")[0]
                    if first in ("re.compile", "re.match", "re.search", "re.fullmatch", "re.sub", "re.split", "re.findall") and node.args:
                        s = self.src(q, node.args[0])
                        if s:
                            out.append(Sink("S1", q, node, f"regular expression built from {ast.unparse(node.args[0])[:60]}", s))
                    if first.endswith("Counter.most_common") and isinstance(node.func, ast.Attribute):
                        recv = node.func.value
                        cs = None
                        if isinstance(recv, ast.Name):
                            cs = self.counters[q].get(recv.id)
                        elif isinstance(recv, ast.Call) and recv.args:
                            cs = self.src(q, recv.args[0])
                        if cs:
                            out.append(Sink("S4", q, node, "Counter.most_common: ties are broken by first insertion, which follows the"
                                                           " order of the counted sequence", cs))
                    if first in ("builtins.next",) and node.args:
                        s = self.src(q, node.args[0])
                        if s:
                            out.append(Sink("S2", q, node, f"next() of {ast.unparse(node.args[0])[:50]}", s))
                    if first.endswith("Template.render") or (first.startswith("?") and ast.unparse(node.func).endswith(".render")):
                        for kw in node.keywords:
                            s = self.src(q, kw.value)
                            if s:
                                out.append(Sink("S5", q, node, f"template argument {kw.arg}={ast.unparse(kw.value)[:50]}", s))
                elif isinstance(node, ast.Subscript) and isinstance(node.ctx, ast.Load) and not isinstance(node.slice, ast.Slice):
                    if isinstance(node.slice, ast.Constant) and isinstance(node.slice.value, int) or \
                            (isinstance(node.slice, ast.UnaryOp) and isinstance(node.slice.operand, ast.Constant)):
                        t = self.facts.type_of(node.value) or ""
                        if t.startswith(("list[", "builtins.list", "typing.Sequence", "Sequence[")) or (t.startswith("tuple[") and "..." in t):
                            s = self.src(q, node.value)
                            if s:
                                out.append(Sink("S2", q, node, f"element {ast.unparse(node.slice)} of {ast.unparse(node.value)[:50]}", s))
                elif isinstance(node, ast.For):
                    s = self.src(q, node.iter)
                    if s:
                        self.set_iterations.append((q, node, s))
                        lv = {n.id for n in ast.walk(node.target) if isinstance(n, ast.Name)}
                        derived = set(lv)
                        for sub in ast.walk(node):
                            if isinstance(sub, ast.Assign) and isinstance(sub.targets[0], ast.Name) and \
                                    {n.id for n in ast.walk(sub.value) if isinstance(n, ast.Name)} & derived:
                                derived.add(sub.targets[0].id)
                        for sub in ast.walk(node):
                            if isinstance(sub, ast.Return) and sub.value is not None and \
                                    {n.id for n in ast.walk(sub.value) if isinstance(n, ast.Name)} & derived:
                                out.append(Sink("S3", q, sub, f"first-match loop returns `{ast.unparse(sub.value)[:50]}` for the first"
                                                              f" matching element", s))
                            if isinstance(sub, ast.Break):
                                # value chosen before the break depends on which element matched
                                blk = parent_of(sub)
                                body = getattr(blk, "body", [])
                                for st in body:
                                    if isinstance(st, ast.Assign) and isinstance(st.targets[0], ast.Name) and \
                                            {n.id for n in ast.walk(st.value) if isinstance(n, ast.Name)} & derived \
                                            and st.targets[0].id not in derived:
                                        out.append(Sink("S3", q, st, f"first-match loop keeps `{ast.unparse(st)[:50]}` from the first"
                                                                     f" matching element", s))
        return out
