"""E0' - canonical form of the parsed program (applied once, when a module is loaded).

The rules of this analyser are written against one spelling of the code.  A behaviour-preserving re-spelling must
not change a verdict, so every module is brought into a canonical form BEFORE any rule looks at it.  Every step is
a semantics-preserving rewrite of the syntax tree (node positions are kept, so reports still point at real lines):

  K1 comparisons   not (a is b) -> a is not b ; not (a is not b) -> a is b ; not (a in b) -> a not in b ; ...
  K2 branches      `if not C: X else: Y` -> `if C: Y else: X` (a real else, no elif chain, no walrus in C);
                   `X if not C else Y` -> `Y if C else X`
  K6 cond. assign  `if C: x = A else: x = B` -> `x = A if C else B`
  K8 arguments     `f(a, y=b)` -> `f(a, b)` for package functions called by plain name or through self./cls.
                   when the keywords continue the declared parameter order
  K9 new helpers   a private module-level function the reference tree does not have, called once at statement
                   level, is substituted into its caller (parameters bound to fresh locals)
  K10 formatting   `"a {} b".format(x)` with a constant template and simple fields -> f"a {x} b"
  K3 temp return   `t = E` immediately followed by `return t`, t used nowhere else  ->  `return E`
  K4 local names   consistent renaming of function-local names back to the names they have in the reference table
                   (sa/local_names.json: for every function the sequence of its bindings, each described WITHOUT
                   local names).  The current function's bindings are aligned with the reference sequence; an aligned
                   binding whose name differs is renamed throughout the function unless that would capture another
                   name.  Consistent renaming never changes behaviour, so a wrong or missing alignment can only leave a
                   rule as strict as it was - it cannot hide a violation.
"""
from __future__ import annotations

import ast
import difflib
import json
from pathlib import Path
from typing import Optional

import os
_NO_K7 = bool(os.environ.get("VERIF_NO_K7"))
TABLE = Path(__file__).with_name("local_names.json")
_REF: Optional[dict] = None


def ref_table() -> dict:
    global _REF
    if _REF is None:
        _REF = json.loads(TABLE.read_text()) if TABLE.exists() else {}
    return _REF


# ------------------------------------------------------------------ K1 / K2
_DUAL = {ast.Is: ast.IsNot, ast.IsNot: ast.Is, ast.In: ast.NotIn, ast.NotIn: ast.In}


def _has_walrus(e: ast.AST) -> bool:
    return any(isinstance(n, ast.NamedExpr) for n in ast.walk(e))


def _format_to_fstring(call: ast.Call) -> Optional[ast.AST]:
    """`"a {} b {x}".format(u, x=v)` -> f"a {u} b {v}" (constant template, simple fields, no format specs)."""
    import string
    f = call.func
    if not (isinstance(f, ast.Attribute) and f.attr == "format" and isinstance(f.value, ast.Constant) and isinstance(f.value.value, str)):
        return None
    if any(isinstance(a, ast.Starred) for a in call.args) or any(k.arg is None for k in call.keywords):
        return None
    try:
        fields = list(string.Formatter().parse(f.value.value))
    except ValueError:
        return None
    kw = {k.arg: k.value for k in call.keywords}
    parts: list[ast.AST] = []
    auto = 0
    for lit, name, spec, conv in fields:
        if lit:
            parts.append(ast.Constant(lit))
        if name is None:
            continue
        if spec:
            return None
        if name == "":
            if auto >= len(call.args):
                return None
            val = call.args[auto]
            auto += 1
        elif name.isdigit():
            if int(name) >= len(call.args):
                return None
            val = call.args[int(name)]
        elif name.isidentifier() and name in kw:
            val = kw[name]
        else:
            return None
        parts.append(ast.FormattedValue(value=val, conversion=ord(conv) if conv else -1, format_spec=None))
    return ast.JoinedStr(values=parts)


def _call_free(e: ast.AST) -> bool:
    return not any(isinstance(n, (ast.Call, ast.NamedExpr, ast.Await, ast.Yield, ast.YieldFrom, ast.Lambda, ast.IfExp, ast.BoolOp, ast.Compare,
                                  ast.ListComp, ast.SetComp, ast.DictComp, ast.GeneratorExp, ast.JoinedStr)) for n in ast.walk(e))


def _orient_key(e: ast.AST) -> tuple:
    text = ast.unparse(e)
    rank = 3 if isinstance(e, ast.Constant) else (2 if text.split(".")[-1].isupper() else 1)
    return (rank, -sum(1 for _ in ast.walk(e)), text)


class _Shape(ast.NodeTransformer):
    def visit_FunctionDef(self, node):
        self._fdepth = getattr(self, "_fdepth", 0) + 1
        try:
            self.generic_visit(node)
        finally:
            self._fdepth -= 1
        return node

    visit_AsyncFunctionDef = visit_FunctionDef

    def visit_Call(self, node: ast.Call):
        self.generic_visit(node)
        # K14: `set(chain.from_iterable(E for X in Y))` is `{e for X in Y for e in E}` (likewise list / sorted keep their wrapper):
        # flattening through itertools is the nested comprehension
        if isinstance(node.func, ast.Name) and node.func.id in ("set", "frozenset") and len(node.args) == 1 and not node.keywords:
            inner = node.args[0]
            if isinstance(inner, ast.Call) and ast.unparse(inner.func) in ("chain.from_iterable", "itertools.chain.from_iterable") \
                    and len(inner.args) == 1 and isinstance(inner.args[0], (ast.GeneratorExp, ast.ListComp)) and node.func.id == "set":
                g = inner.args[0]
                used = {n.id for n in ast.walk(g) if isinstance(n, ast.Name)}
                var = "lic" if "lic" not in used else "flat_item"
                gens = list(g.generators) + [ast.comprehension(target=ast.Name(id=var, ctx=ast.Store()), iter=g.elt, ifs=[], is_async=0)]
                return ast.copy_location(ast.SetComp(elt=ast.Name(id=var, ctx=ast.Load()), generators=gens), node)
        js = _format_to_fstring(node)
        return ast.copy_location(js, node) if js is not None else node

    def visit_UnaryOp(self, node: ast.UnaryOp):
        self.generic_visit(node)
        if isinstance(node.op, ast.Not):
            o = node.operand
            if isinstance(o, ast.Compare) and len(o.ops) == 1 and type(o.ops[0]) in _DUAL:
                return ast.copy_location(ast.Compare(left=o.left, ops=[_DUAL[type(o.ops[0])]()], comparators=o.comparators), node)
        return node

    def visit_Compare(self, node: ast.Compare):
        # K11: one orientation for symmetric comparisons of call-free operands: the more constant side on the right
        # (literal > ALL_CAPS name > anything else), then the larger operand on the left, then alphabetical
        self.generic_visit(node)
        if len(node.ops) == 1 and isinstance(node.ops[0], (ast.Eq, ast.NotEq)):
            a, b = node.left, node.comparators[0]
            if _call_free(a) and _call_free(b) and _orient_key(a) > _orient_key(b):
                node.left, node.comparators = b, [a]
        return node

    def visit_If(self, node: ast.If):
        # K16 (see visit_Assign): both arms of `if c: a, b = (X, Y) else: a, b = (Z, b)` are split together
        arms = [blk[0] for blk in (node.body, node.orelse) if len(blk) == 1 and isinstance(blk[0], ast.Assign)
                and len(blk[0].targets) == 1 and isinstance(blk[0].targets[0], ast.Tuple) and isinstance(blk[0].value, ast.Tuple)]
        if len(arms) == 2 and ast.dump(arms[0].targets[0]) == ast.dump(arms[1].targets[0]):
            for a in arms:
                a._k16_sibling = True
        self.generic_visit(node)
        # K13: `if A: if B: BODY` (no else on either, the inner if is the only statement) is `if A and B: BODY`
        while not node.orelse and len(node.body) == 1 and isinstance(node.body[0], ast.If) and not node.body[0].orelse \
                and not _has_walrus(node.test) and not _has_walrus(node.body[0].test):
            inner = node.body[0]
            left = node.test.values if isinstance(node.test, ast.BoolOp) and isinstance(node.test.op, ast.And) else [node.test]
            right = inner.test.values if isinstance(inner.test, ast.BoolOp) and isinstance(inner.test.op, ast.And) else [inner.test]
            node.test = ast.copy_location(ast.BoolOp(op=ast.And(), values=list(left) + list(right)), node.test)
            node.body = inner.body
        t = node.test
        if isinstance(t, ast.UnaryOp) and isinstance(t.op, ast.Not) and node.orelse \
                and not (len(node.orelse) == 1 and isinstance(node.orelse[0], ast.If)) and not _has_walrus(t):
            node.test, node.body, node.orelse = t.operand, node.orelse, node.body
        # K6: `if C: x = A else: x = B`  ->  `x = A if C else B`
        if len(node.body) == 1 and len(node.orelse) == 1 and all(
                isinstance(b, ast.Assign) and len(b.targets) == 1 and isinstance(b.targets[0], ast.Name) for b in (node.body[0], node.orelse[0])) \
                and node.body[0].targets[0].id == node.orelse[0].targets[0].id and not _has_walrus(node.test):
            name = node.body[0].targets[0].id
            val = ast.copy_location(ast.IfExp(test=node.test, body=node.body[0].value, orelse=node.orelse[0].value), node)
            return ast.copy_location(ast.Assign(targets=[ast.Name(id=name, ctx=ast.Store())], value=val, lineno=node.lineno), node)
        return node

    # K12: an early-exit guard `if T: continue` (in a for body) / `if T: return` (bare, at function level) followed by
    # the rest R of the block is the same as `if not T: R` - one shape for both spellings (the nested one)
    @staticmethod
    def _unguard(seq: list, exit_type, bare_return: bool) -> list:
        for i, st in enumerate(seq[:-1]):
            if isinstance(st, ast.If) and not st.orelse and len(st.body) == 1 and isinstance(st.body[0], exit_type) \
                    and (not bare_return or st.body[0].value is None) and not _has_walrus(st.test):
                rest = _Shape._unguard(seq[i + 1:], exit_type, bare_return)
                t = st.test
                neg = t.operand if isinstance(t, ast.UnaryOp) and isinstance(t.op, ast.Not) else ast.UnaryOp(op=ast.Not(), operand=t)
                if isinstance(neg, ast.UnaryOp) and isinstance(neg.operand, ast.Compare) and len(neg.operand.ops) == 1 and type(neg.operand.ops[0]) in _DUAL:
                    o = neg.operand
                    neg = ast.Compare(left=o.left, ops=[_DUAL[type(o.ops[0])]()], comparators=o.comparators)
                new_if = ast.copy_location(ast.If(test=neg, body=rest, orelse=[]), st)
                return seq[:i] + [new_if]
        return seq

    def visit_Assign(self, node: ast.Assign):
        # K18: `d = {K: V for T in IT}` (one generator, no filter) is `d = {}` followed by `for T in IT: d[K] = V`
        if getattr(self, "_fdepth", 0) > 0 and len(node.targets) == 1 and isinstance(node.targets[0], ast.Name) and isinstance(node.value, ast.DictComp) \
                and len(node.value.generators) == 1 and not node.value.generators[0].ifs and not node.value.generators[0].is_async:
            g = node.value.generators[0]
            name = node.targets[0].id
            if not any(isinstance(x, ast.Name) and x.id == name for x in ast.walk(node.value)):
                init = ast.copy_location(ast.Assign(targets=[ast.Name(id=name, ctx=ast.Store())], value=ast.Dict(keys=[], values=[]),
                                                    lineno=node.lineno), node)
                store = ast.Assign(targets=[ast.Subscript(value=ast.Name(id=name, ctx=ast.Load()), slice=node.value.key, ctx=ast.Store())],
                                   value=node.value.value, lineno=node.lineno)
                loop = ast.For(target=g.target, iter=g.iter, body=[store], orelse=[], type_comment=None)
                for n in ast.walk(loop):
                    if not hasattr(n, "lineno"):
                        ast.copy_location(n, node)
                ast.copy_location(loop, node)
                for n in ast.walk(init):
                    if not hasattr(n, "lineno"):
                        ast.copy_location(n, node)
                self.generic_visit(loop)
                return [init, loop]
        # K16a: `a, b = (X, Y) if C else (Z, W)` is the statement form `if C: a, b = (X, Y) else: a, b = (Z, W)` (then K16)
        if len(node.targets) == 1 and isinstance(node.targets[0], ast.Tuple) and isinstance(node.value, ast.IfExp) \
                and isinstance(node.value.body, ast.Tuple) and isinstance(node.value.orelse, ast.Tuple) and not _has_walrus(node.value.test):
            import copy as _cp
            arms = [ast.copy_location(ast.Assign(targets=[_cp.deepcopy(node.targets[0])], value=v, lineno=node.lineno), node)
                    for v in (node.value.body, node.value.orelse)]
            new_if = ast.copy_location(ast.If(test=node.value.test, body=[arms[0]], orelse=[arms[1]]), node)
            return self.visit_If(new_if)
        # K16: `a, b = (X, Y)` with plain names on the left and no later value reading an earlier target is `a = X; b = Y`;
        # a resulting `x = x` is dropped
        self.generic_visit(node)
        if len(node.targets) == 1 and isinstance(node.targets[0], ast.Tuple) and isinstance(node.value, ast.Tuple) \
                and len(node.targets[0].elts) == len(node.value.elts) and len(node.value.elts) >= 2 \
                and all(isinstance(t, ast.Name) for t in node.targets[0].elts) \
                and not any(isinstance(v, ast.Starred) for v in node.value.elts):
            names = [t.id for t in node.targets[0].elts]
            ok = True
            for j, v in enumerate(node.value.elts):
                if any(isinstance(x, ast.Name) and x.id in names[:j] for x in ast.walk(v)) or _has_walrus(v):
                    ok = False
            # only where some name is rebound to itself (`bom, text = ('', text)`): the artefact of a helper that hands its
            # unchanged argument back in a tuple - hand-written parallel assignments keep their spelling
            selfbound = any(isinstance(v, ast.Name) and v.id == t.id for t, v in zip(node.targets[0].elts, node.value.elts))
            sibling = getattr(node, "_k16_sibling", False)
            if ok and len(set(names)) == len(names) and (selfbound or sibling):
                out = []
                for t, v in zip(node.targets[0].elts, node.value.elts):
                    if isinstance(v, ast.Name) and v.id == t.id:
                        continue
                    out.append(ast.copy_location(ast.Assign(targets=[t], value=v, lineno=node.lineno), node))
                return out or [ast.copy_location(ast.Pass(), node)]
        return node

    def visit_List(self, node: ast.List):
        # [a, *[b, c]] is [a, b, c] (a literal list handed to a `*args`-style splat, e.g. after a helper was substituted)
        self.generic_visit(node)
        if isinstance(node.ctx, ast.Load) and any(isinstance(e, ast.Starred) and isinstance(e.value, (ast.List, ast.Tuple)) for e in node.elts):
            flat = []
            for e in node.elts:
                if isinstance(e, ast.Starred) and isinstance(e.value, (ast.List, ast.Tuple)):
                    flat.extend(e.value.elts)
                else:
                    flat.append(e)
            node.elts = flat
        return node

    def visit_Return(self, node: ast.Return):
        # K17: `return next((ELT for V in IT if C), DEFAULT)` is `for V in IT: if C: return ELT` followed by `return DEFAULT`
        self.generic_visit(node)
        v = node.value
        if isinstance(v, ast.Call) and isinstance(v.func, ast.Name) and v.func.id == "next" and len(v.args) == 2 and not v.keywords \
                and isinstance(v.args[0], ast.GeneratorExp) and len(v.args[0].generators) == 1 and not v.args[0].generators[0].is_async \
                and _call_free(v.args[1]) and not _has_walrus(v.args[0]):
            g = v.args[0].generators[0]
            hit: ast.stmt = ast.Return(value=v.args[0].elt)
            if g.ifs:
                test = g.ifs[0] if len(g.ifs) == 1 else ast.BoolOp(op=ast.And(), values=list(g.ifs))
                hit = ast.If(test=test, body=[hit], orelse=[])
            loop = ast.For(target=g.target, iter=g.iter, body=[hit], orelse=[], type_comment=None)
            for n in (hit, loop):
                ast.copy_location(n, node)
            for n in ast.walk(loop):
                if not hasattr(n, "lineno"):
                    ast.copy_location(n, node)
            return [loop, ast.copy_location(ast.Return(value=v.args[1]), node)]
        return node

    def visit_For(self, node: ast.For):
        self.generic_visit(node)
        if not node.orelse:
            node.body = self._unguard(node.body, ast.Continue, False)
        return node

    def visit_IfExp(self, node: ast.IfExp):
        self.generic_visit(node)
        t = node.test
        if isinstance(t, ast.UnaryOp) and isinstance(t.op, ast.Not) and not _has_walrus(t):
            node.test, node.body, node.orelse = t.operand, node.orelse, node.body
        return node


# ------------------------------------------------------------------ K3
def _name_uses(fn: ast.AST, name: str) -> int:
    return sum(1 for n in ast.walk(fn) if isinstance(n, ast.Name) and n.id == name)


def _dead_after_return(fn: ast.AST, name: str) -> bool:
    """Binding `name` just before `return name` has no other observer: it is a plain local (not global/nonlocal, not a
    parameter default trick), no nested function / lambda / class mentions it and no `finally` block reads it."""
    for n in ast.walk(fn):
        if isinstance(n, (ast.Global, ast.Nonlocal)) and name in n.names:
            return False
        if n is not fn and isinstance(n, (ast.FunctionDef, ast.AsyncFunctionDef, ast.Lambda, ast.ClassDef)):
            if any(isinstance(x, ast.Name) and x.id == name for x in ast.walk(n)):
                return False
        if isinstance(n, ast.Try) and any(isinstance(x, ast.Name) and x.id == name for f in n.finalbody for x in ast.walk(f)):
            return False
    return True


def _inline_temp_returns(fn: ast.AST) -> None:
    def block(stmts: list[ast.stmt]) -> list[ast.stmt]:
        out: list[ast.stmt] = []
        i = 0
        while i < len(stmts):
            st = stmts[i]
            nxt = stmts[i + 1] if i + 1 < len(stmts) else None
            if isinstance(st, ast.Assign) and len(st.targets) == 1 and isinstance(st.targets[0], ast.Name) \
                    and isinstance(nxt, ast.Return) and isinstance(nxt.value, ast.Name) and nxt.value.id == st.targets[0].id \
                    and _dead_after_return(fn, st.targets[0].id):
                out.append(ast.copy_location(ast.Return(value=st.value), nxt))
                i += 2
                continue
            out.append(st)
            i += 1
        return out

    for node in ast.walk(fn):
        if isinstance(node, (ast.FunctionDef, ast.AsyncFunctionDef, ast.ClassDef, ast.Lambda)) and node is not fn:
            continue
        for field in ("body", "orelse", "finalbody"):
            v = getattr(node, field, None)
            if isinstance(v, list) and v and isinstance(v[0], ast.stmt):
                setattr(node, field, block(v))
        if isinstance(node, ast.Try):
            for h in node.handlers:
                h.body = block(h.body)


# ------------------------------------------------------------------ K7: single-use temporaries
_PURE = (ast.Name, ast.Constant)


def _pure(e: ast.AST) -> bool:
    if isinstance(e, _PURE):
        return True
    if isinstance(e, ast.Attribute):
        return _pure(e.value)
    return False


def _eval_order_children(n: ast.AST):
    """Sub-expressions of n in evaluation order, or None when evaluation of some child is conditional / deferred."""
    if isinstance(n, ast.Call):
        return [n.func] + list(n.args) + [k.value for k in n.keywords]
    if isinstance(n, ast.Attribute):
        return [n.value]
    if isinstance(n, ast.BinOp):
        return [n.left, n.right]
    if isinstance(n, ast.UnaryOp):
        return [n.operand]
    if isinstance(n, ast.Subscript):
        return [n.value, n.slice]
    if isinstance(n, ast.Slice):
        return [x for x in (n.lower, n.upper, n.step) if x is not None]
    if isinstance(n, ast.Compare):
        return [n.left] + list(n.comparators) if len(n.ops) == 1 else None
    if isinstance(n, ast.JoinedStr):
        return list(n.values)
    if isinstance(n, ast.FormattedValue):
        return [n.value] + ([n.format_spec] if n.format_spec is not None else [])
    if isinstance(n, (ast.Tuple, ast.List, ast.Set)):
        return list(n.elts)
    if isinstance(n, ast.Starred):
        return [n.value]
    if isinstance(n, ast.Dict):
        out = []
        for k, v in zip(n.keys, n.values):
            if k is not None:
                out.append(k)
            out.append(v)
        return out
    if isinstance(n, _PURE):
        return []
    return None  # BoolOp, IfExp, Lambda, comprehensions, NamedExpr, Await, Yield ...: do not inline through


def _first_use_is_safe(root: ast.AST, name: str) -> bool:
    """`name` occurs exactly once under root, and everything evaluated before that occurrence is pure."""
    found = [False]

    def rec(n) -> bool:
        """True = keep going (nothing impure seen, name not yet found); raises StopIteration style via found."""
        if isinstance(n, ast.Name) and n.id == name:
            found[0] = True
            return True
        kids = _eval_order_children(n)
        if kids is None:
            return False
        for k in kids:
            if found[0]:
                break
            contains = any(isinstance(x, ast.Name) and x.id == name for x in ast.walk(k))
            if contains:
                if not rec(k):
                    return False
            elif not _pure_tree(k):
                return False
        return True

    ok = rec(root)
    return ok and found[0]


def _pure_tree(e: ast.AST) -> bool:
    """No calls / subscripts-with-side-effects: names, constants, attribute chains, and displays/f-strings of those."""
    for n in ast.walk(e):
        if isinstance(n, (ast.Call, ast.Await, ast.Yield, ast.YieldFrom, ast.NamedExpr, ast.Lambda, ast.ListComp, ast.SetComp,
                          ast.DictComp, ast.GeneratorExp)):
            return False
    return True


def _inline_single_use_temps(fn: ast.AST) -> int:
    """`t = E` directly followed by a simple statement that uses t exactly once, t used nowhere else, and nothing
    impure is evaluated between: the temporary is replaced by E."""
    count = [0]
    declared = set()
    for n in ast.walk(fn):
        if isinstance(n, (ast.Global, ast.Nonlocal)):
            declared.update(n.names)

    name_holder = [""]

    def uses(name):
        return sum(1 for n in ast.walk(fn) if isinstance(n, ast.Name) and n.id == name)

    def value_slot(st):
        if isinstance(st, (ast.Expr, ast.Return)) and st.value is not None:
            return st.value
        if isinstance(st, (ast.Assign, ast.AnnAssign)) and st.value is not None:
            tg = st.targets if isinstance(st, ast.Assign) else [st.target]
            # the right-hand side is evaluated before any part of the targets
            if not any(isinstance(n, ast.Name) and n.id == name_holder[0] for t in tg for n in ast.walk(t)):
                return st.value
        if isinstance(st, ast.AugAssign) and isinstance(st.target, ast.Name):
            return st.value
        return None

    def block(stmts):
        out = list(stmts)
        i = 0
        while i + 1 < len(out):
            st, nxt = out[i], out[i + 1]
            if isinstance(st, ast.Assign) and len(st.targets) == 1 and isinstance(st.targets[0], ast.Name):
                name = st.targets[0].id
                name_holder[0] = name
                slot = value_slot(nxt)
                if slot is not None and name not in declared and uses(name) == 2 and _dead_after_return(fn, name) \
                        and not isinstance(st.value, (ast.Constant, ast.List, ast.Dict, ast.Set, ast.ListComp, ast.SetComp, ast.DictComp,
                                                      ast.GeneratorExp, ast.Lambda, ast.IfExp, ast.BoolOp, ast.NamedExpr)) \
                        and sum(1 for n in ast.walk(slot) if isinstance(n, ast.Name) and n.id == name) == 1 \
                        and _first_use_is_safe(slot, name):
                    val = st.value

                    class Sub(ast.NodeTransformer):
                        def visit_Name(self, n):
                            return val if n.id == name and isinstance(n.ctx, ast.Load) else n

                    nxt.value = Sub().visit(slot)
                    del out[i]
                    count[0] += 1
                    i = max(i - 1, 0)
                    continue
            i += 1
        return out

    for node in ast.walk(fn):
        if node is not fn and isinstance(node, (ast.FunctionDef, ast.AsyncFunctionDef, ast.ClassDef, ast.Lambda)):
            continue
        for field in ("body", "orelse", "finalbody"):
            v = getattr(node, field, None)
            if isinstance(v, list) and v and isinstance(v[0], ast.stmt):
                setattr(node, field, block(v))
        if isinstance(node, ast.Try):
            for h in node.handlers:
                h.body = block(h.body)
    return count[0]


# ------------------------------------------------------------------ K8: keyword -> positional for certain callees
_DEFS: Optional[dict] = None


def _package_defs() -> dict:
    """name -> parameter list, for function names defined exactly once in the package under analysis
    (click commands and properties excluded)."""
    global _DEFS
    if _DEFS is not None:
        return _DEFS
    from .model import REPO
    pkg = Path(REPO) / "src" / "reuse"
    found: dict[str, list] = {}
    for path in sorted(pkg.rglob("*.py")):
        try:
            tree = ast.parse(path.read_text(encoding="utf-8"))
        except SyntaxError:
            continue
        meth = set()
        for c in ast.walk(tree):
            if isinstance(c, ast.ClassDef):
                for m in c.body:
                    if isinstance(m, (ast.FunctionDef, ast.AsyncFunctionDef)):
                        meth.add(id(m))
        for n in ast.walk(tree):
            if isinstance(n, (ast.FunctionDef, ast.AsyncFunctionDef)):
                found.setdefault(n.name, []).append((n, id(n) in meth))
    out = {}
    for name, lst in found.items():
        if len(lst) != 1 or name.startswith("__"):
            continue
        d, is_method = lst[0]
        if d.args.vararg or d.args.posonlyargs:
            continue
        decs = {ast.unparse(x).split("(")[0].split(".")[-1] for x in d.decorator_list}
        if decs & {"command", "group", "option", "argument", "pass_obj", "pass_context", "property"}:
            continue
        params = [p.arg for p in d.args.args]
        out[name] = (params[1:] if is_method and "staticmethod" not in decs else params, is_method)
    _DEFS = out
    return out


def _positionalise(tree: ast.AST) -> None:
    """`f(a, y=b)` -> `f(a, b)` when f is certainly a package function (plain name, or self./cls. method), its name is
    defined once, and the keywords continue the positional parameters in exactly their declared order."""
    defs = _package_defs()
    for c in ast.walk(tree):
        if not isinstance(c, ast.Call) or not c.keywords or any(isinstance(a, ast.Starred) for a in c.args):
            continue
        if isinstance(c.func, ast.Name):
            name, via_obj = c.func.id, False
        elif isinstance(c.func, ast.Attribute) and isinstance(c.func.value, ast.Name) and c.func.value.id in ("self", "cls"):
            name, via_obj = c.func.attr, True
        else:
            continue
        ent = defs.get(name)
        if ent is None:
            continue
        params, is_method = ent
        if is_method != via_obj:
            continue
        i = len(c.args)
        moved = 0
        while c.keywords and i < len(params) and c.keywords[0].arg == params[i]:
            c.args.append(c.keywords.pop(0).value)
            i += 1
            moved += 1


# ------------------------------------------------------------------ K4
def _params(fn) -> set[str]:
    a = fn.args
    out = {x.arg for x in a.posonlyargs + a.args + a.kwonlyargs}
    if a.vararg:
        out.add(a.vararg.arg)
    if a.kwarg:
        out.add(a.kwarg.arg)
    return out


def _walk_own(fn):
    """Nodes of fn excluding nested function / class / lambda bodies (comprehensions included)."""
    todo = list(ast.iter_child_nodes(fn))
    while todo:
        n = todo.pop(0)
        yield n
        if isinstance(n, (ast.FunctionDef, ast.AsyncFunctionDef, ast.ClassDef, ast.Lambda)):
            continue
        todo[0:0] = list(ast.iter_child_nodes(n))


COMPS = (ast.ListComp, ast.SetComp, ast.DictComp, ast.GeneratorExp)


def _own_roots(scope) -> list:
    if isinstance(scope, COMPS):
        roots = []
        for g_i, g in enumerate(scope.generators):
            roots.append(g.target)
            if g_i > 0:
                roots.append(g.iter)
            roots.extend(g.ifs)
        for f in ("key", "value", "elt"):
            if hasattr(scope, f):
                roots.append(getattr(scope, f))
        return roots
    return list(ast.iter_child_nodes(scope))


def _walk_scope(scope):
    """Nodes of ONE scope (a function or a comprehension): nested def / class / lambda bodies are not entered and a
    nested comprehension contributes only its first iterable, which is evaluated in the enclosing scope."""
    todo = _own_roots(scope)
    while todo:
        n = todo.pop(0)
        yield n
        if isinstance(n, (ast.FunctionDef, ast.AsyncFunctionDef, ast.ClassDef, ast.Lambda)):
            continue
        if isinstance(n, COMPS):
            todo.insert(0, n.generators[0].iter)
            continue
        todo[0:0] = list(ast.iter_child_nodes(n))


def _scopes(fn):
    """The function scope and every comprehension scope inside it (not inside nested defs), in source order."""
    out = [fn]
    for n in _walk_own(fn):
        if isinstance(n, COMPS):
            out.append(n)
    return out


def bindings(fn) -> list[tuple[str, str, str, ast.AST]]:
    """[(descriptor, weak descriptor, name, scope node)] for the first binding of each local name of the function
    scope and of every comprehension scope, in source order.  Descriptors do not mention local names."""
    params = _params(fn)
    declared = set()
    for n in _walk_own(fn):
        if isinstance(n, (ast.Global, ast.Nonlocal)):
            declared.update(n.names)
    raw: list[tuple[str, object, str, ast.AST, int]] = []

    def targets(t, kind, valdesc, scope, idx=""):
        if isinstance(t, ast.Name):
            raw.append((kind + idx, valdesc, t.id, scope, getattr(t, "lineno", 0) * 1000 + getattr(t, "col_offset", 0)))
        elif isinstance(t, (ast.Tuple, ast.List)):
            for i, e in enumerate(t.elts):
                targets(e, kind, valdesc, scope, f"{idx}.{i}")
        elif isinstance(t, ast.Starred):
            targets(t.value, kind, valdesc, scope, idx + "*")

    for scope in _scopes(fn):
        if isinstance(scope, COMPS):
            for g in scope.generators:
                targets(g.target, "comp", g.iter, scope)
            for n in _walk_scope(scope):
                if isinstance(n, ast.NamedExpr):
                    targets(n.target, "walrus", n.value, fn)  # walrus in a comprehension binds in the function
            continue
        for n in _walk_scope(scope):
            if isinstance(n, ast.Assign):
                for t in n.targets:
                    targets(t, "assign", n.value, scope)
            elif isinstance(n, ast.AnnAssign) and n.value is not None:
                targets(n.target, "assign", n.value, scope)
            elif isinstance(n, ast.AnnAssign):
                targets(n.target, "declare", None, scope)
            elif isinstance(n, (ast.For, ast.AsyncFor)):
                targets(n.target, "for", n.iter, scope)
            elif isinstance(n, (ast.With, ast.AsyncWith)):
                for item in n.items:
                    if item.optional_vars is not None:
                        targets(item.optional_vars, "with", item.context_expr, scope)
            elif isinstance(n, ast.ExceptHandler) and n.name:
                raw.append(("except", n.type, n.name, scope, n.lineno * 1000 + n.col_offset))
            elif isinstance(n, ast.NamedExpr):
                targets(n.target, "walrus", n.value, scope)
    raw.sort(key=lambda r: r[4])
    local_names = {name for _, _, name, sc, _ in raw if (name not in params and name not in declared) or sc is not fn}
    out = []
    seen = set()
    for kind, val, name, scope, _ in raw:
        if scope is fn and (name in params or name in declared):
            continue
        if (id(scope), name) in seen:
            continue
        seen.add((id(scope), name))
        out.append((f"{kind}:{_skeleton(val, local_names)}", kind.split(".")[0], name, scope))
    return out


def _skeleton(val, local_names: set[str]) -> str:
    if val is None:
        return ""
    if not isinstance(val, ast.AST):
        return str(val)

    class T(ast.NodeTransformer):
        def visit_Name(self, n):
            if n.id in local_names:
                return ast.copy_location(ast.Name(id="_", ctx=n.ctx), n)
            return n

    import copy
    try:
        return ast.unparse(T().visit(copy.deepcopy(val)))[:160]
    except Exception:
        return type(val).__name__


def _all_identifiers(fn) -> set[str]:
    out = set()
    for n in ast.walk(fn):
        if isinstance(n, ast.Name):
            out.add(n.id)
        elif isinstance(n, ast.arg):
            out.add(n.arg)
        elif isinstance(n, ast.ExceptHandler) and n.name:
            out.add(n.name)
        elif isinstance(n, (ast.FunctionDef, ast.AsyncFunctionDef, ast.ClassDef)):
            out.add(n.name)
        elif isinstance(n, ast.alias):
            out.add((n.asname or n.name).split(".")[0])
        elif isinstance(n, (ast.Global, ast.Nonlocal)):
            out.update(n.names)
    return out


def _rebinding_nested(fn, name: str) -> bool:
    """A nested def/lambda/class inside fn that binds `name` itself (parameter or assignment)."""
    for n in ast.walk(fn):
        if n is fn or not isinstance(n, (ast.FunctionDef, ast.AsyncFunctionDef, ast.Lambda, ast.ClassDef)):
            continue
        if isinstance(n, ast.ClassDef):
            inner = n
        else:
            if name in _params(n):
                return True
            inner = n
        for m in ast.walk(inner):
            if isinstance(m, ast.Name) and m.id == name and isinstance(m.ctx, (ast.Store, ast.Del)):
                return True
    return False


def align(cur: list, ref: list[list[str]]) -> list[tuple[ast.AST, str, str]]:
    """Pair current bindings with reference bindings: [(scope node, current name, reference name)] where they differ."""
    cd = [c[0] for c in cur]
    rd = [r[0] for r in ref]
    pairs: list[tuple[int, int]] = []
    sm = difflib.SequenceMatcher(a=cd, b=rd, autojunk=False)
    pi = pj = 0
    for b in sm.get_matching_blocks():
        # the unmatched stretch before this block: pair in order when the weak descriptors (kind) agree
        gap_c = list(range(pi, b.a))
        gap_r = list(range(pj, b.b))
        if gap_c and len(gap_c) == len(gap_r) and all(cur[x][1] == ref[y][1] for x, y in zip(gap_c, gap_r)):
            pairs.extend(zip(gap_c, gap_r))
        for k in range(b.size):
            pairs.append((b.a + k, b.b + k))
        pi, pj = b.a + b.size, b.b + b.size
    return [(cur[i][3], cur[i][2], ref[j][2]) for i, j in pairs if cur[i][2] != ref[j][2]]


def _binds(comp, name: str) -> bool:
    return any(isinstance(n, ast.Name) and n.id == name for g in comp.generators for n in ast.walk(g.target))


def _region(fn, old: str):
    """Nodes where the FUNCTION-level variable `old` is visible: the function subtree without nested scopes that
    re-bind `old` (comprehensions binding it - except their first iterable -, defs/lambdas with such a parameter)."""
    todo = list(fn.body)  # decorators, defaults and annotations belong to the enclosing scope
    while todo:
        n = todo.pop()
        if isinstance(n, COMPS) and _binds(n, old):
            todo.append(n.generators[0].iter)
            continue
        if isinstance(n, (ast.FunctionDef, ast.AsyncFunctionDef, ast.Lambda)) and old in _params(n):
            continue
        yield n
        todo.extend(ast.iter_child_nodes(n))


def _names_in(nodes, name: str) -> list:
    out = []
    for n in nodes:
        if isinstance(n, ast.Name) and n.id == name:
            out.append(n)
        elif isinstance(n, ast.ExceptHandler) and n.name == name:
            out.append(n)
        elif isinstance(n, ast.arg) and n.arg == name:
            out.append(n)
        elif isinstance(n, (ast.FunctionDef, ast.AsyncFunctionDef, ast.ClassDef)) and n.name == name:
            out.append(n)
        elif isinstance(n, (ast.Global, ast.Nonlocal)) and name in n.names:
            out.append(n)
        elif isinstance(n, ast.alias) and (n.asname or n.name).split(".")[0] == name:
            out.append(n)
    return out


def _own_nodes(comp) -> list:
    first = set(map(id, ast.walk(comp.generators[0].iter)))
    return [x for x in ast.walk(comp) if id(x) not in first and x is not comp]


def rename_locals(fn, plan: list[tuple[ast.AST, str, str]]) -> list[tuple[str, str]]:
    """Apply consistent renamings one at a time; one that could capture (or be captured by) another name is skipped
    (and retried after the others, in case one of them frees the name).  Returns what was applied."""
    applied = []
    pending = list(plan)
    progress = True
    while pending and progress:
        progress = False
        for item in list(pending):
            scope, old, new = item
            if scope is fn:
                if _rebinding_nested(fn, old):
                    pending.remove(item)
                    continue
                region = list(_region(fn, old))
                allowed: set[int] = set()
                clash = False
                for c in region:
                    if isinstance(c, COMPS) and _binds(c, new):
                        own = _own_nodes(c)
                        if _names_in(own, old):
                            clash = True  # `old` used where the comprehension's own `new` would capture it
                        allowed.update(id(x) for x in own)
                for occ in _names_in(region, new) + [a for a in ast.walk(fn.args) if isinstance(a, ast.arg) and a.arg == new]:
                    if id(occ) not in allowed:
                        clash = True
                if clash:
                    continue
                for n in region:
                    if isinstance(n, ast.Name) and n.id == old:
                        n.id = new
                    elif isinstance(n, ast.ExceptHandler) and n.name == old:
                        n.name = new
            else:
                own = _own_nodes(scope)
                if _names_in(own, new):
                    continue
                for n in own:
                    if isinstance(n, ast.Name) and n.id == old:
                        n.id = new
            applied.append((old, new))
            pending.remove(item)
            progress = True
    return applied


# ------------------------------------------------------------------ K9: helpers that the reference tree does not know
def _eligible_helper(d: ast.FunctionDef) -> bool:
    """A module-level private function that can be substituted at its call site: no decorators, plain positional
    parameters, no yield / nested definitions / global, and `return` only as its very last statement."""
    a = d.args
    if d.decorator_list or a.vararg or a.kwarg or a.kwonlyargs or a.posonlyargs:
        return False
    body = list(d.body)
    if body and isinstance(body[0], ast.Expr) and isinstance(body[0].value, ast.Constant) and isinstance(body[0].value.value, str):
        body = body[1:]
    if not body:
        return False
    for n in ast.walk(d):
        if n is d:
            continue
        if isinstance(n, (ast.FunctionDef, ast.AsyncFunctionDef, ast.ClassDef, ast.Lambda, ast.Yield, ast.YieldFrom, ast.Await,
                          ast.Global, ast.Nonlocal)):
            return False
    import copy as _copy
    body = _structure_returns(_copy.deepcopy(body))
    returns = [n for b in body for n in ast.walk(b) if isinstance(n, ast.Return)]
    tails = set(map(id, _tail_statements(body)))
    if any(id(rt) not in tails for rt in returns):
        return False  # a return in the middle of the helper cannot be substituted by plain statements
    if any(isinstance(n, (ast.For, ast.While, ast.AsyncFor)) and any(isinstance(x, ast.Return) for x in ast.walk(n)) for n in ast.walk(d)):
        return False
    return True


def _terminal(block: list) -> bool:
    """The block always leaves by return / raise."""
    if not block:
        return False
    last = block[-1]
    if isinstance(last, (ast.Return, ast.Raise)):
        return True
    if isinstance(last, ast.If):
        return _terminal(last.body) and _terminal(last.orelse)
    if isinstance(last, ast.Try):
        return (_terminal(last.orelse) if last.orelse else _terminal(last.body)) and all(_terminal(h.body) for h in last.handlers) \
            and not last.finalbody
    if isinstance(last, (ast.With, ast.AsyncWith)):
        return _terminal(last.body)
    return False


def _structure_returns(block: list) -> list:
    """Behaviour-preserving: when a branch of an if / every handler of a try always leaves, the statements that follow
    move into the else clause, so that every `return` ends up in tail position."""
    out = list(block)
    for i, st in enumerate(out):
        rest = out[i + 1:]
        if isinstance(st, ast.If):
            st.body = _structure_returns(st.body)
            st.orelse = _structure_returns(st.orelse)
            if rest and _terminal(st.body) and not st.orelse:
                st.orelse = _structure_returns(rest)
                return out[:i + 1]
            if rest and st.orelse and _terminal(st.orelse) and not _terminal(st.body):
                st.body = st.body + _structure_returns(rest)
                return out[:i + 1]
        elif isinstance(st, ast.Try) and not st.finalbody:
            st.body = _structure_returns(st.body)
            for h in st.handlers:
                h.body = _structure_returns(h.body)
            st.orelse = _structure_returns(st.orelse)
            if rest and st.handlers and all(_terminal(h.body) for h in st.handlers) and any(
                    isinstance(n, ast.Return) for h in st.handlers for n in ast.walk(h)):
                st.orelse = st.orelse + _structure_returns(rest)
                return out[:i + 1]
        elif isinstance(st, (ast.With, ast.AsyncWith)):
            st.body = _structure_returns(st.body)
    return out


def _tail_statements(block: list) -> list:
    """Statements in tail position of a block: the last statement, and recursively the last statements of the
    branches of a last if / try / with."""
    if not block:
        return []
    last = block[-1]
    out = [last]
    if isinstance(last, ast.If):
        out += _tail_statements(last.body) + _tail_statements(last.orelse)
    elif isinstance(last, ast.Try):
        # with a finally clause the value of a return is still what it is; the body's tail is a tail only without else
        out += (_tail_statements(last.orelse) if last.orelse else _tail_statements(last.body))
        for h in last.handlers:
            out += _tail_statements(h.body)
    elif isinstance(last, (ast.With, ast.AsyncWith)):
        out += _tail_statements(last.body)
    return out


def _inline_unknown_helpers(tree: ast.Module, modname: str, known: set[str], log: Optional[list]) -> None:
    """A private module-level function that the reference tree does not have, with exactly one call site (in this
    module, at statement level), is substituted into its caller: code that was moved into a new helper is analysed
    where it came from.  Parameters become fresh locals bound to the arguments; the helper's locals get a suffix."""
    new_fns = {n.name: n for n in tree.body if isinstance(n, ast.FunctionDef) and not (n.name.startswith("__") and n.name.endswith("__"))
               and f"{modname}.{n.name}" not in known and not n.decorator_list}
    if not new_fns:
        return
    import copy
    # a helper made of guard clauses over expressions only (`if C: return A` … `return B`) is the one expression
    # `A if C else B`: it can then be substituted where it is called from an expression (a comprehension, an argument)
    for d in new_fns.values():
        body = list(d.body)
        doc = []
        if body and isinstance(body[0], ast.Expr) and isinstance(body[0].value, ast.Constant) and isinstance(body[0].value.value, str):
            doc, body = body[:1], body[1:]
        if len(body) >= 2 and isinstance(body[-1], ast.Return) and body[-1].value is not None and all(
                isinstance(st, ast.If) and not st.orelse and len(st.body) == 1 and isinstance(st.body[0], ast.Return)
                and st.body[0].value is not None and not _has_walrus(st.test) for st in body[:-1]):
            expr = body[-1].value
            for st in reversed(body[:-1]):
                expr = ast.copy_location(ast.IfExp(test=st.test, body=st.body[0].value, orelse=expr), st)
            d.body = doc + [ast.copy_location(ast.Return(value=expr), body[-1])]
    _substitute_expression_helpers(tree, new_fns)
    defs = {k: v for k, v in new_fns.items() if _eligible_helper(v)}
    if not defs:
        return
    _hoist_nested_helper_calls(tree, defs)
    uses: dict[str, list] = {k: [] for k in defs}
    for n in ast.walk(tree):
        if isinstance(n, ast.Name) and n.id in uses and isinstance(n.ctx, ast.Load):
            uses[n.id].append(n)
    for name, d in defs.items():
        if not 1 <= len(uses[name]) <= 4:
            continue
        # every use must be the callee of a statement-level call outside the helper itself, else nothing is inlined
        for use in list(uses[name]):
            _inline_one_use(tree, modname, name, d, use, log)
        if not any(isinstance(n, ast.Name) and n.id == name and isinstance(n.ctx, ast.Load) for n in ast.walk(tree)
                   if not any(n is x for x in ast.walk(d))):
            tree.body = [x for x in tree.body if x is not d]


def _substitute_expression_methods(tree: ast.Module, modname: str, known: set[str]) -> None:
    """The same for a METHOD the confirmed tree does not have whose body is a single `return EXPR` (plain, static or class method,
    positional parameters only, name defined once in the module): `obj.m(a)` with call-free receiver and arguments becomes EXPR with
    `self` / `cls` read as the receiver."""
    import copy
    names: dict[str, int] = {}
    for n in ast.walk(tree):
        if isinstance(n, (ast.FunctionDef, ast.AsyncFunctionDef)):
            names[n.name] = names.get(n.name, 0) + 1
    simple = {}
    for c in tree.body:
        if not isinstance(c, ast.ClassDef):
            continue
        for d in c.body:
            if not isinstance(d, ast.FunctionDef) or f"{modname}.{c.name}.{d.name}" in known or names.get(d.name) != 1 \
                    or (d.name.startswith("__") and d.name.endswith("__")):
                continue
            decos = [ast.unparse(x) for x in d.decorator_list]
            if any(x not in ("staticmethod", "classmethod") for x in decos):
                continue
            body = list(d.body)
            if body and isinstance(body[0], ast.Expr) and isinstance(body[0].value, ast.Constant) and isinstance(body[0].value.value, str):
                body = body[1:]
            a = d.args
            if len(body) == 1 and isinstance(body[0], ast.Return) and body[0].value is not None and not a.defaults and not a.kwarg \
                    and not a.kwonlyargs and not a.posonlyargs and not a.vararg \
                    and not any(isinstance(n, (ast.Lambda, ast.Yield, ast.YieldFrom, ast.Await, ast.NamedExpr)) for n in ast.walk(body[0])) \
                    and not any(isinstance(n, ast.Call) and isinstance(n.func, ast.Name) and n.func.id == "super" for n in ast.walk(body[0])):
                simple[d.name] = (d, body[0].value, "static" if "staticmethod" in decos else "bound", c)
    if not simple:
        return

    class Sub(ast.NodeTransformer):
        site_names: set = set()

        def visit_Call(self, node: ast.Call):
            self.generic_visit(node)
            if isinstance(node.func, ast.Attribute) and node.func.attr in simple and not node.keywords \
                    and not any(isinstance(a, ast.Starred) for a in node.args) and _call_free(node.func.value):
                d, expr, kind, _c = simple[node.func.attr]
                params = [p.arg for p in d.args.args]
                bound = {}
                if kind == "bound":
                    if not params:
                        return node
                    bound[params[0]] = node.func.value
                    params = params[1:]
                if len(node.args) != len(params) or not all(_call_free(a) for a in node.args):
                    return node
                bound.update(zip(params, node.args))
                stored = {n.id for n in ast.walk(expr) if isinstance(n, ast.Name) and isinstance(n.ctx, ast.Store)}
                if stored & set(bound):
                    return node
                suffix = "__" + node.func.attr.strip("_")

                class Ren(ast.NodeTransformer):
                    def visit_Name(self, n):
                        if n.id in bound and isinstance(n.ctx, ast.Load):
                            return copy.deepcopy(bound[n.id])
                        if n.id in stored and n.id in Sub.site_names:
                            return ast.copy_location(ast.Name(id=n.id + suffix, ctx=n.ctx), n)
                        return n
                return ast.copy_location(Ren().visit(copy.deepcopy(expr)), node)
            return node

    for top in tree.body:
        Sub.site_names = {n.id for n in ast.walk(top) if isinstance(n, ast.Name)} | {a.arg for n in ast.walk(top) if isinstance(n, ast.arguments) for a in n.args + n.kwonlyargs}
        Sub().visit(top)
    # a method nobody calls any more is dropped (its code now stands at the call sites)
    for name, (d, _e, _k, c) in simple.items():
        if not any(isinstance(n, ast.Attribute) and n.attr == name for n in ast.walk(tree)):
            c.body = [x for x in c.body if x is not d] or [ast.Pass()]
    ast.fix_missing_locations(tree)


def _substitute_expression_helpers(tree: ast.Module, defs: dict) -> None:
    """A new helper whose body is a single `return EXPR` is substituted as an EXPRESSION wherever it is called with call-free
    arguments (names, constants, attribute chains): `_matches_any(PATTERNS, name)` becomes `any(p.fullmatch(name) for p in
    PATTERNS)` in place - also inside an `if` test, where a statement cannot be hoisted.  Comprehension variables of the
    helper are renamed apart from the names of the call site."""
    import copy
    simple = {}
    for name, d in defs.items():
        body = list(d.body)
        if body and isinstance(body[0], ast.Expr) and isinstance(body[0].value, ast.Constant) and isinstance(body[0].value.value, str):
            body = body[1:]
        a = d.args
        if len(body) == 1 and isinstance(body[0], ast.Return) and body[0].value is not None and not a.defaults and not a.kwarg \
                and not a.kwonlyargs and not a.posonlyargs and not any(isinstance(n, (ast.Lambda, ast.Yield, ast.YieldFrom, ast.Await)) for n in ast.walk(body[0])):
            if a.vararg is not None:
                # `*parts` may only be passed on as `*parts` in a call of the expression
                va = a.vararg.arg
                uses_ = [n for n in ast.walk(body[0].value) if isinstance(n, ast.Name) and n.id == va]
                starred = [n for n in ast.walk(body[0].value) if isinstance(n, ast.Starred) and isinstance(n.value, ast.Name) and n.value.id == va]
                if len(uses_) != len(starred):
                    continue
            simple[name] = (d, body[0].value)
    if not simple:
        return

    class Sub(ast.NodeTransformer):
        site_names: set = set()

        def visit_Call(self, node: ast.Call):
            self.generic_visit(node)
            if isinstance(node.func, ast.Name) and node.func.id in simple and not node.keywords \
                    and not any(isinstance(a, ast.Starred) for a in node.args):
                d, expr = simple[node.func.id]
                params = [p.arg for p in d.args.args]
                va = d.args.vararg.arg if d.args.vararg is not None else None
                if (len(node.args) != len(params) and va is None) or len(node.args) < len(params) or not all(_call_free(a) for a in node.args):
                    return node
                bound = dict(zip(params, node.args))
                extra = list(node.args[len(params):])
                stored = {n.id for n in ast.walk(expr) if isinstance(n, ast.Name) and isinstance(n.ctx, ast.Store)}
                if stored & set(params):
                    return node
                suffix = "__" + node.func.id.strip("_")
                e2 = copy.deepcopy(expr)

                class Ren(ast.NodeTransformer):
                    def visit_Call(self, c):
                        self.generic_visit(c)
                        if va is not None:
                            new_args = []
                            for a_ in c.args:
                                if isinstance(a_, ast.Starred) and isinstance(a_.value, ast.Name) and a_.value.id == va:
                                    new_args += [copy.deepcopy(x) for x in extra]
                                else:
                                    new_args.append(a_)
                            c.args = new_args
                        return c

                    def visit_Name(self, n):
                        if n.id in bound and isinstance(n.ctx, ast.Load):
                            return copy.deepcopy(bound[n.id])
                        if n.id in stored and n.id in Sub.site_names:   # renamed apart only where the call site uses the name itself
                            return ast.copy_location(ast.Name(id=n.id + suffix, ctx=n.ctx), n)
                        return n
                return ast.copy_location(Ren().visit(e2), node)
            return node

    for top in tree.body:
        if isinstance(top, ast.FunctionDef) and top.name in simple:
            continue
        Sub.site_names = {n.id for n in ast.walk(top) if isinstance(n, ast.Name)} | {a.arg for n in ast.walk(top) if isinstance(n, ast.arguments) for a in n.args + n.kwonlyargs}
        Sub().visit(top)
    ast.fix_missing_locations(tree)


def _hoist_nested_helper_calls(tree: ast.Module, defs: dict) -> None:
    """`outer(a, helper(x), k=helper(y))` at statement level becomes `t = helper(x); outer(a, t, …)` when every argument that
    is evaluated BEFORE the helper call is call-free (so moving the call in front of the statement keeps the order of effects)."""
    counter = [0]
    for owner in ast.walk(tree):
        for field in ("body", "orelse", "finalbody"):
            stmts = getattr(owner, field, None)
            if not (isinstance(stmts, list) and stmts and isinstance(stmts[0], ast.stmt)):
                continue
            idx = 0
            while idx < len(stmts):
                st = stmts[idx]
                outer = st.value if isinstance(st, (ast.Expr, ast.Assign, ast.AugAssign, ast.Return)) and isinstance(getattr(st, "value", None), ast.Call) else None
                hoisted = False
                if outer is not None and not (isinstance(outer.func, ast.Name) and outer.func.id in defs):
                    operands = [("a", i, a) for i, a in enumerate(outer.args)] + [("k", i, k.value) for i, k in enumerate(outer.keywords)]
                    for pos, (kind, i, a) in enumerate(operands):
                        if isinstance(a, ast.Call) and isinstance(a.func, ast.Name) and a.func.id in defs:
                            earlier = [x for _, _, x in operands[:pos]]
                            if all(_call_free(x) for x in earlier) and _call_free(outer.func):
                                counter[0] += 1
                                tmp = f"{a.func.id.strip('_')}__value{counter[0]}"
                                asg = ast.copy_location(ast.Assign(targets=[ast.Name(id=tmp, ctx=ast.Store())], value=a), st)
                                ref = ast.copy_location(ast.Name(id=tmp, ctx=ast.Load()), a)
                                if kind == "a":
                                    outer.args[i] = ref
                                else:
                                    outer.keywords[i].value = ref
                                stmts.insert(idx, asg)
                                hoisted = True
                                break
                if not hoisted:
                    idx += 1
                else:
                    idx += 1   # the inserted assignment; the statement itself is looked at again for further nested calls


def _walk_outside_comprehension_targets(node: ast.AST):
    """Name nodes in Store / Del context that are not (part of) a comprehension target."""
    skip = {id(n) for c_ in ast.walk(node) if isinstance(c_, ast.comprehension) for n in ast.walk(c_.target)}
    for n in ast.walk(node):
        if isinstance(n, ast.Name) and isinstance(n.ctx, (ast.Store, ast.Del)) and id(n) not in skip:
            yield n


def _inline_new_methods(tree: ast.Module, modname: str, known: set[str], log: Optional[list]) -> None:
    """A METHOD that the confirmed tree does not have (plain, class or static method, name defined once in the module, returns
    only in tail position, no super(), its receiver parameter never called or rebound) with one to four call sites, all of them
    statement-level calls `name.m(...)` on a plain name, is substituted into its callers like a module-level helper: code that
    moved into a new method is analysed where it came from."""
    import copy
    names: dict[str, int] = {}
    for n in ast.walk(tree):
        if isinstance(n, (ast.FunctionDef, ast.AsyncFunctionDef)):
            names[n.name] = names.get(n.name, 0) + 1
    for c in [x for x in tree.body if isinstance(x, ast.ClassDef)]:
        for d in list(c.body):
            if not isinstance(d, ast.FunctionDef) or f"{modname}.{c.name}.{d.name}" in known or names.get(d.name) != 1 \
                    or (d.name.startswith("__") and d.name.endswith("__")):
                continue
            decos = [ast.unparse(x) for x in d.decorator_list]
            if any(x not in ("staticmethod", "classmethod") for x in decos):
                continue
            kind = "static" if "staticmethod" in decos else "bound"
            probe = copy.deepcopy(d)
            probe.decorator_list = []
            if not _eligible_helper(probe):
                continue
            if any(isinstance(n, ast.Call) and isinstance(n.func, ast.Name) and n.func.id == "super" for n in ast.walk(d)):
                continue
            if kind == "bound":
                if not d.args.args:
                    continue
                me = d.args.args[0].arg
                if any((isinstance(n, ast.Call) and isinstance(n.func, ast.Name) and n.func.id == me)
                       or (isinstance(n, ast.Name) and n.id == me and isinstance(n.ctx, (ast.Store, ast.Del))) for n in ast.walk(d)):
                    continue
            uses = [n for n in ast.walk(tree) if isinstance(n, ast.Attribute) and n.attr == d.name and isinstance(n.ctx, ast.Load)
                    and not any(n is x for x in ast.walk(d))]
            if not 1 <= len(uses) <= 4 or not all(isinstance(u.value, ast.Name) for u in uses):
                continue
            for u in uses:
                _inline_one_use(tree, modname, d.name, d, u, log, kind)
            if not any(isinstance(n, ast.Attribute) and n.attr == d.name for n in ast.walk(tree) if not any(n is x for x in ast.walk(d))):
                c.body = [x for x in c.body if x is not d] or [ast.Pass()]


def _inline_one_use(tree: ast.Module, modname: str, name: str, d: ast.FunctionDef, use: ast.AST, log: Optional[list],
                    method_kind: str = "") -> None:
    import copy
    if True:
        # find the statement and its container
        done = False
        for owner in ast.walk(tree):
            if done:
                break
            if owner is d or any(owner is x for x in ast.walk(d)):
                continue
            for field in ("body", "orelse", "finalbody"):
                stmts = getattr(owner, field, None)
                if not (isinstance(stmts, list) and stmts and isinstance(stmts[0], ast.stmt)):
                    continue
                for idx, st in enumerate(stmts):
                    call = None
                    if isinstance(st, ast.Expr) and isinstance(st.value, ast.Call):
                        call = st.value
                    elif isinstance(st, (ast.Assign, ast.Return)) and isinstance(st.value, ast.Call):
                        call = st.value
                    elif isinstance(st, ast.AugAssign) and isinstance(st.value, ast.Call):
                        call = st.value
                    if call is None or call.func is not use:
                        continue
                    params = [p.arg for p in d.args.args]
                    bound: dict[str, ast.AST] = {}
                    off = 0
                    if isinstance(use, ast.Attribute) and method_kind == "bound":
                        # a method: its first parameter is the object it is called on
                        if not params or not isinstance(use.value, ast.Name):
                            continue
                        bound[params[0]] = use.value
                        off = 1
                    if call.keywords and any(k.arg is None or k.arg not in params[off:] for k in call.keywords):
                        continue
                    if any(isinstance(x, ast.Starred) for x in call.args) or len(call.args) > len(params) - off:
                        continue
                    for i, a in enumerate(call.args):
                        bound[params[i + off]] = a
                    for k in call.keywords:
                        bound[k.arg] = k.value
                    defaults = d.args.defaults
                    for i, pn in enumerate(params):
                        if pn not in bound:
                            di = i - (len(params) - len(defaults))
                            if di < 0:
                                bound = None
                                break
                            bound[pn] = defaults[di]
                    if bound is None:
                        continue
                    suffix = "__" + name.strip("_")
                    body = copy.deepcopy(d.body)
                    if body and isinstance(body[0], ast.Expr) and isinstance(body[0].value, ast.Constant) and isinstance(body[0].value.value, str):
                        body = body[1:]
                    body = _structure_returns(body)
                    stored = {n.id for b in body for n in ast.walk(b) if isinstance(n, ast.Name) and isinstance(n.ctx, (ast.Store, ast.Del))}
                    stored |= {h.name for b in body for h in ast.walk(b) if isinstance(h, ast.ExceptHandler) and h.name}
                    pre: list[ast.stmt] = []
                    subst: dict[str, ast.AST] = {}
                    for pn in params:
                        arg = bound[pn]
                        uses = sum(1 for b in body for n in ast.walk(b) if isinstance(n, ast.Name) and n.id == pn and isinstance(n.ctx, ast.Load))
                        if isinstance(arg, (ast.Name, ast.Constant)) and pn not in stored:
                            subst[pn] = arg
                        elif pn not in stored and uses == 1 and _call_free(arg):
                            # a call-free argument read exactly once (e.g. the iterable of the helper's loop): same value at
                            # the point of use as at the call
                            subst[pn] = arg
                        else:
                            pre.append(ast.copy_location(ast.Assign(targets=[ast.Name(id=pn + suffix, ctx=ast.Store())], value=arg), st))
                            subst[pn] = ast.Name(id=pn + suffix, ctx=ast.Load())
                            stored.discard(pn)
                    # names bound ONLY as comprehension variables live in the comprehension's own scope: they need no suffix
                    comp_bound = {n.id for b in body for c_ in ast.walk(b) if isinstance(c_, ast.comprehension)
                                  for n in ast.walk(c_.target) if isinstance(n, ast.Name)}
                    plain_bound = {n.id for b in body for n in _walk_outside_comprehension_targets(b)}
                    local_names = stored - set(params) - (comp_bound - plain_bound)

                    class Ren(ast.NodeTransformer):
                        def visit_Name(self, n):
                            if n.id in subst and isinstance(n.ctx, ast.Load):
                                return copy.deepcopy(subst[n.id])
                            if n.id in subst and isinstance(subst[n.id], ast.Name):
                                return ast.copy_location(ast.Name(id=subst[n.id].id, ctx=n.ctx), n)
                            if n.id in local_names:
                                return ast.copy_location(ast.Name(id=n.id + suffix, ctx=n.ctx), n)
                            return n

                        def visit_ExceptHandler(self, n):
                            self.generic_visit(n)
                            if n.name in local_names:
                                n.name = n.name + suffix
                            return n

                    body = [Ren().visit(b) for b in body]

                    def deliver(val: ast.AST, at: ast.AST) -> list:
                        """What `return val` of the helper means at this call site."""
                        if isinstance(st, ast.Expr):
                            return [] if isinstance(val, (ast.Constant, ast.Name)) else [ast.copy_location(ast.Expr(value=val), at)]
                        if isinstance(st, ast.Assign):
                            return [ast.copy_location(ast.Assign(targets=copy.deepcopy(st.targets), value=val), at)]
                        if isinstance(st, ast.AugAssign):
                            return [ast.copy_location(ast.AugAssign(target=copy.deepcopy(st.target), op=st.op, value=val), at)]
                        return [ast.copy_location(ast.Return(value=val), at)]

                    def rewrite_tail(block: list) -> list:
                        """Replace the returns in tail position by their meaning at the call site; a tail that falls off
                        the end of the helper delivers None."""
                        if not block:
                            return deliver(ast.Constant(None), st)
                        last = block[-1]
                        if isinstance(last, ast.Return):
                            return block[:-1] + (deliver(last.value if last.value is not None else ast.Constant(None), last) or [])
                        if isinstance(last, ast.Raise):
                            return block
                        if isinstance(last, ast.If):
                            last.body = rewrite_tail(last.body) or [ast.copy_location(ast.Pass(), last)]
                            last.orelse = rewrite_tail(last.orelse) if (last.orelse or not isinstance(st, ast.Expr)) else last.orelse
                            return block
                        if isinstance(last, ast.Try):
                            if last.orelse:
                                last.orelse = rewrite_tail(last.orelse)
                            else:
                                last.body = rewrite_tail(last.body) or [ast.copy_location(ast.Pass(), last)]
                            for h in last.handlers:
                                h.body = rewrite_tail(h.body) or [ast.copy_location(ast.Pass(), h)]
                            return block
                        if isinstance(last, (ast.With, ast.AsyncWith)):
                            last.body = rewrite_tail(last.body) or [ast.copy_location(ast.Pass(), last)]
                            return block
                        return block + deliver(ast.Constant(None), st)

                    has_return = any(isinstance(n, ast.Return) for b in body for n in ast.walk(b))
                    if has_return or not isinstance(st, ast.Expr):
                        body = rewrite_tail(body)
                    stmts[idx:idx + 1] = pre + body
                    if log is not None:
                        log.append((f"{modname}.{name}", "inlined into a caller"))
                    done = True
                    break
                if done:
                    break


# ------------------------------------------------------------------ driver
def functions_of(tree: ast.Module, modname: str):
    """(qualified name, node) in the indexing scheme of model.Repo."""
    def rec(node, prefix):
        for child in ast.iter_child_nodes(node):
            if isinstance(child, (ast.FunctionDef, ast.AsyncFunctionDef)):
                q = f"{prefix}.{child.name}"
                yield q, child
                yield from rec(child, q)
            elif isinstance(child, ast.ClassDef):
                yield from rec(child, f"{prefix}.{child.name}")
            elif isinstance(child, (ast.If, ast.Try, ast.With, ast.For, ast.While)):
                yield from rec(child, prefix)
    yield from rec(tree, modname)


# ------------------------------------------------------------------ K15
def _expand_function_selectors(tree: ast.Module) -> None:
    """K15: `f = A if T else B` … `x = f(ARGS)` (f bound once, used once as the callee of a simple statement; T call-free over names
    that are never rebound; A and B plain names / attribute chains) is `if T: x = A(ARGS) else: x = B(ARGS)` - the spelling with the
    duplicated call, which is the one the rules know."""
    import copy

    def simple_ref(e):
        while isinstance(e, ast.Attribute):
            e = e.value
        return isinstance(e, ast.Name)

    for fn in [n for n in ast.walk(tree) if isinstance(n, (ast.FunctionDef, ast.AsyncFunctionDef))]:
        changed = True
        while changed:
            changed = False
            stored: dict[str, int] = {}
            for n in _walk_own(fn):
                if isinstance(n, ast.Name) and isinstance(n.ctx, (ast.Store, ast.Del)):
                    stored[n.id] = stored.get(n.id, 0) + 1
            blocks = [fn.body] + [b for n in _walk_own(fn) for f in ("body", "orelse", "finalbody") for b in [getattr(n, f, None)] if isinstance(b, list)]
            for blk in blocks:
                for i, st in enumerate(blk):
                    def selector(e) -> bool:
                        # A if T else (B if U else C): leaves are plain references, tests are call-free over names never rebound
                        if isinstance(e, ast.IfExp):
                            return _call_free(e.test) and not _has_walrus(e.test) \
                                and not any(isinstance(x, ast.Name) and stored.get(x.id) for x in ast.walk(e.test)) \
                                and selector(e.body) and selector(e.orelse)
                        return simple_ref(e)

                    if not (isinstance(st, ast.Assign) and len(st.targets) == 1 and isinstance(st.targets[0], ast.Name)
                            and isinstance(st.value, ast.IfExp) and selector(st.value)):
                        continue
                    name, test = st.targets[0].id, st.value.test
                    if stored.get(name) != 1:
                        continue
                    loads = [n for n in ast.walk(fn) if isinstance(n, ast.Name) and n.id == name and isinstance(n.ctx, ast.Load)]
                    if len(loads) != 1:
                        continue
                    # the single use: callee of a call inside a simple statement that comes later in this block (at any depth)
                    hit = None
                    for later in blk[i + 1:]:
                        for holder in ast.walk(later):
                            for f in ("body", "orelse", "finalbody"):
                                sub = getattr(holder, f, None)
                                if not isinstance(sub, list):
                                    continue
                                for j, s2 in enumerate(sub):
                                    if isinstance(s2, (ast.Assign, ast.Expr, ast.Return, ast.AnnAssign, ast.AugAssign)) \
                                            and any(x is loads[0] for x in ast.walk(s2)):
                                        hit = (sub, j, s2)
                        if isinstance(later, (ast.Assign, ast.Expr, ast.Return, ast.AnnAssign, ast.AugAssign)) \
                                and any(x is loads[0] for x in ast.walk(later)):
                            hit = (blk, blk.index(later), later)
                    if hit is None:
                        continue
                    sub, j, s2 = hit
                    calls = [c for c in ast.walk(s2) if isinstance(c, ast.Call) and c.func is loads[0]]
                    if len(calls) != 1 or any(isinstance(x, (ast.Lambda, ast.ListComp, ast.SetComp, ast.DictComp, ast.GeneratorExp))
                                              and any(y is loads[0] for y in ast.walk(x)) for x in ast.walk(s2)):
                        continue
                    def expand(e):
                        if isinstance(e, ast.IfExp):
                            return ast.copy_location(ast.If(test=copy.deepcopy(e.test), body=[expand(e.body)], orelse=[expand(e.orelse)]), s2)
                        calls[0].func = e
                        arm = copy.deepcopy(s2)
                        calls[0].func = loads[0]
                        return arm

                    sub[j] = expand(st.value)
                    blk.remove(st)
                    changed = True
                    break
                if changed:
                    break


def _fold_new_constants(tree: ast.Module, modname: str, known: set[str]) -> None:
    """K19: a module-level name that the confirmed tree does not have, bound once to a string / number literal and never rebound,
    is read as the literal it stands for (`_BOM = "\\ufeff"` … `text.startswith(_BOM)`)."""
    cands: dict[str, ast.Constant] = {}
    for st in tree.body:
        if isinstance(st, (ast.Assign, ast.AnnAssign)) and st.value is not None and isinstance(st.value, ast.Constant) \
                and isinstance(st.value.value, (str, int, bytes)) and not isinstance(st.value.value, bool):
            for t in (st.targets if isinstance(st, ast.Assign) else [st.target]):
                if isinstance(t, ast.Name) and f"{modname}.{t.id}" not in known:
                    cands[t.id] = st.value
    if not cands:
        return
    stores: dict[str, int] = {}
    for n in ast.walk(tree):
        if isinstance(n, ast.Name) and isinstance(n.ctx, (ast.Store, ast.Del)) and n.id in cands:
            stores[n.id] = stores.get(n.id, 0) + 1
        if isinstance(n, (ast.Global, ast.Nonlocal)):
            for x in n.names:
                stores[x] = 99
        if isinstance(n, ast.arg) and n.arg in cands:
            stores[n.arg] = 99
    cands = {k: v for k, v in cands.items() if stores.get(k) == 1}
    if not cands:
        return

    class _Fold(ast.NodeTransformer):
        def visit_Name(self, n):
            if isinstance(n.ctx, ast.Load) and n.id in cands:
                return ast.copy_location(ast.Constant(value=cands[n.id].value), n)
            return n

        def visit_JoinedStr(self, n):
            self.generic_visit(n)
            # f"{x}{'.txt'}" (a folded constant inside an f-string) is f"{x}.txt"
            parts: list = []
            for v in n.values:
                if isinstance(v, ast.FormattedValue) and isinstance(v.value, ast.Constant) and isinstance(v.value.value, str) \
                        and v.conversion == -1 and v.format_spec is None:
                    v = ast.copy_location(ast.Constant(value=v.value.value), v)
                if isinstance(v, ast.Constant) and parts and isinstance(parts[-1], ast.Constant):
                    parts[-1] = ast.copy_location(ast.Constant(value=parts[-1].value + v.value), parts[-1])
                else:
                    parts.append(v)
            n.values = parts
            return n

        def visit_Call(self, n):
            self.generic_visit(n)
            # len("literal") is a number
            if isinstance(n.func, ast.Name) and n.func.id == "len" and len(n.args) == 1 and not n.keywords \
                    and isinstance(n.args[0], ast.Constant) and isinstance(n.args[0].value, (str, bytes)):
                return ast.copy_location(ast.Constant(value=len(n.args[0].value)), n)
            return n

    for st in tree.body:
        if isinstance(st, (ast.FunctionDef, ast.AsyncFunctionDef, ast.ClassDef)):
            _Fold().visit(st)


def canonicalise(tree: ast.Module, modname: str, log: Optional[list] = None) -> ast.Module:
    _known_consts = set(ref_table().get("__constants__", []))
    if _known_consts:
        _fold_new_constants(tree, modname, _known_consts)
    _expand_function_selectors(tree)
    tree = _Shape().visit(tree)
    table = ref_table()
    known = set(table.get("__functions__", []))
    if known:
        before = len(tree.body), sum(1 for _ in ast.walk(tree))
        _substitute_expression_methods(tree, modname, known)
        _inline_new_methods(tree, modname, known, log)
        _inline_unknown_helpers(tree, modname, known, log)
        if before != (len(tree.body), sum(1 for _ in ast.walk(tree))):
            tree = _Shape().visit(tree)  # the substituted statements get the same normal form as hand-written ones
    _positionalise(tree)
    fns = list(functions_of(tree, modname))
    # innermost first, so that a nested function is settled before its parent is renamed
    for q, fn in reversed(fns):
        _inline_temp_returns(fn)
        if not _NO_K7:
            _inline_single_use_temps(fn)
        ref = table.get(q)
        if ref and q != "__functions__":
            applied = rename_locals(fn, align(bindings(fn), ref))
            if applied and log is not None:
                log.append((q, applied))
    ast.fix_missing_locations(tree)
    return tree


def make_table(repo_src: Path) -> dict:
    """Reference table from the tree at hand (run once on the confirmed tree: mk_local_names.py)."""
    out = {}
    pkg = repo_src / "reuse"
    for path in sorted(pkg.rglob("*.py")):
        rel = path.relative_to(repo_src).with_suffix("")
        parts = list(rel.parts)
        if parts[-1] == "__init__":
            parts = parts[:-1]
        modname = ".".join(parts)
        tree = _Shape().visit(ast.parse(path.read_text(encoding="utf-8")))
        for st in tree.body:
            for t in (st.targets if isinstance(st, ast.Assign) else [st.target] if isinstance(st, ast.AnnAssign) else []):
                if isinstance(t, ast.Name):
                    out.setdefault("__constants__", []).append(f"{modname}.{t.id}")
        _positionalise(tree)
        for q, fn in functions_of(tree, modname):
            _inline_temp_returns(fn)
            if not _NO_K7:
                _inline_single_use_temps(fn)
        for q, fn in functions_of(tree, modname):
            out.setdefault("__functions__", []).append(q)
            b = bindings(fn)
            if b:
                out[q] = [[d, w, n] for d, w, n, _ in b]
    return out
