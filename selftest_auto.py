#!/venv/bin/python
"""Automatic behaviour-preserving refactorings of the WHOLE package; every check must stay silent on each.

Not a registered check.  Each transformation rewrites every module of a scratch copy of /repo/src with `ast`
(so formatting and comments are dropped as well), compiles it, and runs the twenty checks against the copy.  A
REPORT / VIOLATION / ANALYSIS-ERROR on such a copy is a false alarm of the checker: the property holds there exactly
as it does on the real tree.

  T0 reformat      ast.unparse(ast.parse(src))                     (layout, comments, quotes, parentheses)
  T1 alpha         consistent renaming of function-local variables  (x -> x_)
  T20 split-and    `if A and B: BODY` -> `if A: if B: BODY`
  T19 merge-if     `if A: if B: BODY` -> `if A and B: BODY`
  T18 guard-invert trailing `if C: BODY` -> `if not C: return|continue` + BODY
  T17 debug-log    `_LOGGER.debug("entering f")` inserted at the top of every function of modules with a _LOGGER
  T16 bool-return  `if C: return True` / `return False` -> `return C`
  T15 swap-eq      `a == b` -> `b == a` (call-free operands)
  T2 swap-else     `if c: A else: B`  ->  `if not c: B else: A`     (no elif chains)
  T3 demorgan      `not a and not b` -> `not (a or b)`, `not a or not b` -> `not (a and b)`
  T4 len-tests     `if x:` on a call to len / explicit `len(x) > 0` spelling of `if xs:` is NOT generated (types unknown);
                   instead `x is not None` <-> `not x is None` style: `a is not None` -> `not (a is None)`
  T5 temp-return   `return <expr>` -> `result_ = <expr>; return result_` (non-trivial expressions)
  T7 comp-alpha    renaming of comprehension variables inside their comprehension
  T8 loop->comp    `acc = []; for x in it: if c: acc.append(e)` -> list comprehension
  T9 return-else   `if c: return X` + rest -> `if c: return X else: rest`
  T10 flatten-else the inverse of T9
  T11 ifexp->stmt  `x = a if c else b` -> if/else statement
  T12 hoist-arg    first non-trivial argument of a statement-level call moved into a fresh local
  T13 keywordise   positional arguments of calls to uniquely named package functions become keyword arguments
  T14 fstring->fmt f-strings become str.format calls with positional fields
  T6 aug-extend    `xs.extend(ys)` statement -> `xs += ys` for a local list initialised with `[]` / a list display

usage: selftest_auto.py [T0 T1 ...] [-p Cnn ...]
"""
from __future__ import annotations

import argparse
import ast
import concurrent.futures as cf
import os
import shutil
import subprocess
import sys
import symtable
import tempfile
from pathlib import Path

HERE = Path(__file__).resolve().parent
PROPS = [f"C{i:02d}" for i in range(1, 21)]


# ------------------------------------------------------------------ transformations
class SwapElse(ast.NodeTransformer):
    def visit_If(self, node: ast.If):
        self.generic_visit(node)
        if node.orelse and not (len(node.orelse) == 1 and isinstance(node.orelse[0], ast.If)) \
                and not _has_walrus(node.test):
            t = node.test
            neg = t.operand if isinstance(t, ast.UnaryOp) and isinstance(t.op, ast.Not) else ast.UnaryOp(op=ast.Not(), operand=t)
            return ast.If(test=neg, body=node.orelse, orelse=node.body)
        return node


def _has_walrus(e: ast.AST) -> bool:
    return any(isinstance(n, ast.NamedExpr) for n in ast.walk(e))


class DeMorgan(ast.NodeTransformer):
    def visit_BoolOp(self, node: ast.BoolOp):
        self.generic_visit(node)
        if all(isinstance(v, ast.UnaryOp) and isinstance(v.op, ast.Not) for v in node.values):
            dual = ast.Or() if isinstance(node.op, ast.And) else ast.And()
            return ast.UnaryOp(op=ast.Not(), operand=ast.BoolOp(op=dual, values=[v.operand for v in node.values]))
        return node


def _pure_operand(e: ast.AST) -> bool:
    return all(isinstance(n, (ast.Name, ast.Attribute, ast.Constant, ast.Subscript, ast.Load, ast.Slice, ast.Tuple, ast.UnaryOp, ast.USub, ast.BinOp,
                              ast.Add, ast.Sub)) for n in ast.walk(e))


class SwapEq(ast.NodeTransformer):
    """T15: `a == b` -> `b == a`, `a != b` -> `b != a` for operands without calls (evaluation order cannot matter)."""
    def visit_Compare(self, node: ast.Compare):
        self.generic_visit(node)
        if len(node.ops) == 1 and isinstance(node.ops[0], (ast.Eq, ast.NotEq)) and _pure_operand(node.left) and _pure_operand(node.comparators[0]):
            return ast.Compare(left=node.comparators[0], ops=node.ops, comparators=[node.left])
        return node


def _boolean_valued(e: ast.AST) -> bool:
    if isinstance(e, ast.Compare):
        return True
    if isinstance(e, ast.UnaryOp) and isinstance(e.op, ast.Not):
        return True
    if isinstance(e, ast.BoolOp):
        return all(_boolean_valued(v) for v in e.values)
    return False


class BoolReturn(ast.NodeTransformer):
    """T16: `if C: return True` + `return False` -> `return C` (and the negated twin) when C is boolean-valued."""
    def _rewrite(self, body: list) -> list:
        out = []
        i = 0
        while i < len(body):
            st = body[i]
            nxt = body[i + 1] if i + 1 < len(body) else None
            if isinstance(st, ast.If) and not st.orelse and len(st.body) == 1 and isinstance(st.body[0], ast.Return) \
                    and isinstance(st.body[0].value, ast.Constant) and isinstance(st.body[0].value.value, bool) \
                    and isinstance(nxt, ast.Return) and isinstance(nxt.value, ast.Constant) and isinstance(nxt.value.value, bool) \
                    and st.body[0].value.value != nxt.value.value and _boolean_valued(st.test) and not _has_walrus(st.test):
                val = st.test if st.body[0].value.value else ast.UnaryOp(op=ast.Not(), operand=st.test)
                out.append(ast.Return(value=val))
                i += 2
                continue
            out.append(st)
            i += 1
        return out

    def generic_visit(self, node):
        super().generic_visit(node)
        for field in ("body", "orelse", "finalbody"):
            seq = getattr(node, field, None)
            if isinstance(seq, list) and seq and isinstance(seq[0], ast.stmt):
                setattr(node, field, self._rewrite(seq))
        return node


class GuardInvert(ast.NodeTransformer):
    """T18: an else-less `if C: BODY` that is the LAST statement of a function (implicit return None) or of a for/while
    body becomes the early-exit form `if not C: return|continue` + BODY."""
    def _last_if(self, seq: list, exit_stmt) -> list:
        if seq and isinstance(seq[-1], ast.If) and not seq[-1].orelse and not _has_walrus(seq[-1].test) and len(seq[-1].body) >= 2:
            st = seq[-1]
            guard = ast.If(test=ast.UnaryOp(op=ast.Not(), operand=st.test), body=[exit_stmt], orelse=[])
            return seq[:-1] + [guard] + st.body
        return seq

    def visit_FunctionDef(self, node: ast.FunctionDef):
        self.generic_visit(node)
        if not any(isinstance(n, (ast.Yield, ast.YieldFrom)) for n in ast.walk(node)):
            node.body = self._last_if(node.body, ast.Return(value=None))
        return node

    def visit_For(self, node: ast.For):
        self.generic_visit(node)
        if not node.orelse:
            node.body = self._last_if(node.body, ast.Continue())
        return node


class MergeNestedIf(ast.NodeTransformer):
    """T19: `if A: if B: BODY` (no else on either, inner if is the only statement) -> `if A and B: BODY`."""
    def visit_If(self, node: ast.If):
        self.generic_visit(node)
        if not node.orelse and len(node.body) == 1 and isinstance(node.body[0], ast.If) and not node.body[0].orelse \
                and not _has_walrus(node.test) and not _has_walrus(node.body[0].test):
            inner = node.body[0]
            left = node.test.values if isinstance(node.test, ast.BoolOp) and isinstance(node.test.op, ast.And) else [node.test]
            right = inner.test.values if isinstance(inner.test, ast.BoolOp) and isinstance(inner.test.op, ast.And) else [inner.test]
            return ast.If(test=ast.BoolOp(op=ast.And(), values=left + right), body=inner.body, orelse=[])
        return node


class SplitAndIf(ast.NodeTransformer):
    """T20: `if A and B: BODY` (no else) -> `if A: if B: BODY`."""
    def visit_If(self, node: ast.If):
        self.generic_visit(node)
        if not node.orelse and isinstance(node.test, ast.BoolOp) and isinstance(node.test.op, ast.And) and len(node.test.values) >= 2 \
                and not _has_walrus(node.test):
            first, rest = node.test.values[0], node.test.values[1:]
            inner_test = rest[0] if len(rest) == 1 else ast.BoolOp(op=ast.And(), values=rest)
            return ast.If(test=first, body=[ast.If(test=inner_test, body=node.body, orelse=[])], orelse=[])
        return node


class AddDebugLog(ast.NodeTransformer):
    """T17: a `_LOGGER.debug("entering …")` as first statement (after the docstring) of every function of a module that has _LOGGER."""
    def __init__(self):
        self.has_logger = False

    def visit_Module(self, node: ast.Module):
        self.has_logger = any(isinstance(st, ast.Assign) and any(isinstance(t, ast.Name) and t.id == "_LOGGER" for t in st.targets) for st in node.body)
        self.generic_visit(node)
        return node

    def visit_FunctionDef(self, node: ast.FunctionDef):
        self.generic_visit(node)
        if not self.has_logger or any(isinstance(n, (ast.Yield, ast.YieldFrom)) for n in ast.walk(node)) and False:
            return node
        call = ast.Expr(value=ast.Call(func=ast.Attribute(value=ast.Name(id="_LOGGER", ctx=ast.Load()), attr="debug", ctx=ast.Load()),
                                       args=[ast.Constant(value=f"entering {node.name}")], keywords=[]))
        i = 1 if node.body and isinstance(node.body[0], ast.Expr) and isinstance(node.body[0].value, ast.Constant) and isinstance(node.body[0].value.value, str) else 0
        node.body.insert(i, call)
        return node


class IsNotNone(ast.NodeTransformer):
    def visit_Compare(self, node: ast.Compare):
        self.generic_visit(node)
        if len(node.ops) == 1 and isinstance(node.ops[0], ast.IsNot):
            return ast.UnaryOp(op=ast.Not(), operand=ast.Compare(left=node.left, ops=[ast.Is()], comparators=node.comparators))
        return node


class TempReturn(ast.NodeTransformer):
    def __init__(self):
        self.depth = 0

    def _body(self, stmts):
        out = []
        for st in stmts:
            if isinstance(st, ast.Return) and st.value is not None and not isinstance(st.value, (ast.Name, ast.Constant)):
                out.append(ast.Assign(targets=[ast.Name(id="result_", ctx=ast.Store())], value=st.value, lineno=st.lineno))
                out.append(ast.Return(value=ast.Name(id="result_", ctx=ast.Load())))
            else:
                out.append(st)
        return out

    def generic_visit(self, node):
        super().generic_visit(node)
        for field in ("body", "orelse", "finalbody"):
            v = getattr(node, field, None)
            if isinstance(v, list) and v and isinstance(v[0], ast.stmt):
                setattr(node, field, self._body(v))
        return node

    def visit_Lambda(self, node):
        return node


class AugExtend(ast.NodeTransformer):
    def visit_FunctionDef(self, node: ast.FunctionDef):
        lists = set()
        for n in ast.walk(node):
            if isinstance(n, (ast.Assign, ast.AnnAssign)):
                tg = n.targets if isinstance(n, ast.Assign) else [n.target]
                if n.value is not None and isinstance(n.value, ast.List) and len(tg) == 1 and isinstance(tg[0], ast.Name):
                    lists.add(tg[0].id)
        self.lists = lists
        self.generic_visit(node)
        return node

    def visit_Expr(self, node: ast.Expr):
        v = node.value
        if isinstance(v, ast.Call) and isinstance(v.func, ast.Attribute) and v.func.attr == "extend" and len(v.args) == 1 \
                and not v.keywords and isinstance(v.func.value, ast.Name) and v.func.value.id in getattr(self, "lists", ()):
            return ast.AugAssign(target=ast.Name(id=v.func.value.id, ctx=ast.Store()), op=ast.Add(), value=v.args[0])
        return node


class LoopToComp(ast.NodeTransformer):
    """T8: `acc = []` directly followed by `for x in it: [if c:] acc.append(e)`  ->  `acc = [e for x in it if c]`."""
    def _block(self, stmts):
        out = []
        i = 0
        while i < len(stmts):
            st = stmts[i]
            nxt = stmts[i + 1] if i + 1 < len(stmts) else None
            tgt = None
            if isinstance(st, ast.Assign) and len(st.targets) == 1 and isinstance(st.targets[0], ast.Name):
                tgt = st.targets[0]
            elif isinstance(st, ast.AnnAssign) and isinstance(st.target, ast.Name) and st.value is not None:
                tgt = st.target
            if tgt is not None and isinstance(st.value, ast.List) and not st.value.elts and isinstance(nxt, ast.For) and not nxt.orelse:
                body = nxt.body
                cond = None
                if len(body) == 1 and isinstance(body[0], ast.If) and not body[0].orelse:
                    cond = body[0].test
                    body = body[0].body
                if len(body) == 1 and isinstance(body[0], ast.Expr) and isinstance(body[0].value, ast.Call) \
                        and ast.unparse(body[0].value.func) == f"{tgt.id}.append" and len(body[0].value.args) == 1 \
                        and not any(isinstance(n, ast.Name) and n.id == tgt.id for n in ast.walk(nxt.iter)) \
                        and not any(isinstance(n, (ast.NamedExpr, ast.Yield, ast.Await)) for n in ast.walk(nxt)):
                    comp = ast.ListComp(elt=body[0].value.args[0],
                                        generators=[ast.comprehension(target=nxt.target, iter=nxt.iter, ifs=[cond] if cond is not None else [], is_async=0)])
                    out.append(ast.copy_location(ast.Assign(targets=[ast.Name(id=tgt.id, ctx=ast.Store())], value=comp), st))
                    i += 2
                    continue
            out.append(st)
            i += 1
        return out

    def generic_visit(self, node):
        super().generic_visit(node)
        for field in ("body", "orelse", "finalbody"):
            v = getattr(node, field, None)
            if isinstance(v, list) and v and isinstance(v[0], ast.stmt):
                setattr(node, field, self._block(v))
        return node


class ReturnElse(ast.NodeTransformer):
    """T9: `if c: ...return/raise` followed by the rest of the block  ->  `if c: ... else: <rest>`."""
    def _block(self, stmts):
        for i, st in enumerate(stmts):
            if isinstance(st, ast.If) and not st.orelse and st.body and isinstance(st.body[-1], (ast.Return, ast.Raise)) \
                    and i + 1 < len(stmts) and not any(isinstance(n, (ast.Break, ast.Continue)) for b in st.body for n in ast.walk(b)):
                rest = self._block(stmts[i + 1:])
                return stmts[:i] + [ast.copy_location(ast.If(test=st.test, body=st.body, orelse=rest), st)]
        return stmts

    def visit_FunctionDef(self, node):
        self.generic_visit(node)
        doc = node.body[:1] if node.body and isinstance(node.body[0], ast.Expr) and isinstance(node.body[0].value, ast.Constant) else []
        node.body = doc + self._block(node.body[len(doc):])
        return node


class FlattenElse(ast.NodeTransformer):
    """T10: `if c: ...return/raise  else: rest`  ->  `if c: ...return/raise` + rest."""
    def _block(self, stmts):
        out = []
        for st in stmts:
            if isinstance(st, ast.If) and st.orelse and st.body and isinstance(st.body[-1], (ast.Return, ast.Raise, ast.Continue, ast.Break)) \
                    and not (len(st.orelse) == 1 and isinstance(st.orelse[0], ast.If)):
                out.append(ast.copy_location(ast.If(test=st.test, body=st.body, orelse=[]), st))
                out.extend(self._block(st.orelse))
            else:
                out.append(st)
        return out

    def generic_visit(self, node):
        super().generic_visit(node)
        for field in ("body", "orelse", "finalbody"):
            v = getattr(node, field, None)
            if isinstance(v, list) and v and isinstance(v[0], ast.stmt):
                setattr(node, field, self._block(v))
        return node


class IfExpToStmt(ast.NodeTransformer):
    """T11: `x = a if c else b`  ->  `if c: x = a  else: x = b`."""
    def _block(self, stmts):
        out = []
        for st in stmts:
            if isinstance(st, ast.Assign) and len(st.targets) == 1 and isinstance(st.targets[0], ast.Name) and isinstance(st.value, ast.IfExp):
                v = st.value
                out.append(ast.copy_location(ast.If(test=v.test,
                                                    body=[ast.Assign(targets=[ast.Name(id=st.targets[0].id, ctx=ast.Store())], value=v.body)],
                                                    orelse=[ast.Assign(targets=[ast.Name(id=st.targets[0].id, ctx=ast.Store())], value=v.orelse)]), st))
            else:
                out.append(st)
        return out

    def generic_visit(self, node):
        super().generic_visit(node)
        for field in ("body", "orelse", "finalbody"):
            v = getattr(node, field, None)
            if isinstance(v, list) and v and isinstance(v[0], ast.stmt):
                setattr(node, field, self._block(v))
        return node


class HoistArg(ast.NodeTransformer):
    """T12: hoist the first non-trivial positional/keyword argument of a statement-level call into a fresh local:
    `f(g(x), y)` -> `arg_1 = g(x); f(arg_1, y)` (statement level only: Expr / Assign / Return of a call)."""
    def __init__(self):
        self.n = 0

    def _block(self, stmts):
        out = []
        for st in stmts:
            call = None
            if isinstance(st, ast.Expr) and isinstance(st.value, ast.Call):
                call = st.value
            elif isinstance(st, (ast.Assign, ast.Return)) and isinstance(st.value, ast.Call):
                call = st.value
            if call is not None and not any(isinstance(n, (ast.NamedExpr, ast.Yield, ast.Await, ast.Lambda, ast.GeneratorExp)) for n in ast.walk(call)) \
                    and isinstance(call.func, (ast.Name, ast.Attribute)) and not any(isinstance(a, ast.Starred) for a in call.args):
                slots = [("a", i) for i in range(len(call.args))] + [("k", i) for i, k in enumerate(call.keywords) if k.arg]
                for kind, i in slots:
                    v = call.args[i] if kind == "a" else call.keywords[i].value
                    if isinstance(v, (ast.Call, ast.BinOp, ast.Subscript, ast.JoinedStr)):
                        # everything evaluated before it must be side-effect free: earlier args are names/constants/attributes
                        earlier = call.args[:i] if kind == "a" else call.args + [k.value for k in call.keywords[:i]]
                        if all(isinstance(e, (ast.Name, ast.Constant, ast.Attribute)) for e in earlier) and \
                                (isinstance(call.func, ast.Name) or isinstance(call.func.value, (ast.Name, ast.Attribute))):
                            self.n += 1
                            name = f"arg_{self.n}"
                            out.append(ast.copy_location(ast.Assign(targets=[ast.Name(id=name, ctx=ast.Store())], value=v), st))
                            if kind == "a":
                                call.args[i] = ast.Name(id=name, ctx=ast.Load())
                            else:
                                call.keywords[i].value = ast.Name(id=name, ctx=ast.Load())
                        break
            out.append(st)
        return out

    def generic_visit(self, node):
        super().generic_visit(node)
        for field in ("body", "orelse", "finalbody"):
            v = getattr(node, field, None)
            if isinstance(v, list) and v and isinstance(v[0], ast.stmt) and not isinstance(node, (ast.Module, ast.ClassDef)):
                setattr(node, field, self._block(v))
        return node


def keywordise(src_by_file: dict[str, str]) -> dict[str, str]:
    """T13 (whole package): calls of package functions with a unique definition name get their positional arguments
    spelled as keywords (`f(a, b)` -> `f(x=a, y=b)`), where the callee has no *args/positional-only parameters."""
    trees = {f: ast.parse(s) for f, s in src_by_file.items()}
    defs: dict[str, list] = {}
    for t in trees.values():
        for n in ast.walk(t):
            if isinstance(n, (ast.FunctionDef, ast.AsyncFunctionDef)):
                defs.setdefault(n.name, []).append(n)
    unique = {k: v[0] for k, v in defs.items() if len(v) == 1 and not k.startswith("__")}
    methods = set()
    for t in trees.values():
        for c in ast.walk(t):
            if isinstance(c, ast.ClassDef):
                for m in c.body:
                    if isinstance(m, (ast.FunctionDef, ast.AsyncFunctionDef)):
                        methods.add(id(m))
    for t in trees.values():
        for c in ast.walk(t):
            if not isinstance(c, ast.Call) or not c.args or any(isinstance(a, ast.Starred) for a in c.args):
                continue
            # only calls whose callee is certain: plain names and self./cls. methods
            if isinstance(c.func, ast.Name):
                name = c.func.id
            elif isinstance(c.func, ast.Attribute) and isinstance(c.func.value, ast.Name) and c.func.value.id in ("self", "cls"):
                name = c.func.attr
            else:
                name = None
            d = unique.get(name)
            if d is None or d.args.vararg or d.args.posonlyargs or d.decorator_list and any(
                    ast.unparse(x).split("(")[0].split(".")[-1] in ("command", "group", "option", "argument", "pass_obj", "pass_context", "property")
                    for x in d.decorator_list):
                continue
            params = [p.arg for p in d.args.args]
            if id(d) in methods:
                if isinstance(c.func, ast.Name):
                    continue
                params = params[1:]
            if len(c.args) > len(params) or any(k.arg in params[:len(c.args)] for k in c.keywords if k.arg):
                continue
            new_kw = [ast.keyword(arg=params[i], value=a) for i, a in enumerate(c.args)]
            c.args = []
            c.keywords = new_kw + c.keywords
    return {f: ast.unparse(t) for f, t in trees.items()}


class FStringToFormat(ast.NodeTransformer):
    """T14: f"a {x} b" -> "a {} b".format(x) for f-strings whose fields carry no format spec."""
    def visit_JoinedStr(self, node: ast.JoinedStr):
        self.generic_visit(node)
        tmpl = ""
        args = []
        for v in node.values:
            if isinstance(v, ast.Constant) and isinstance(v.value, str):
                tmpl += v.value.replace("{", "{{").replace("}", "}}")
            elif isinstance(v, ast.FormattedValue) and v.format_spec is None:
                conv = {-1: "", 115: "!s", 114: "!r", 97: "!a"}.get(v.conversion, "")
                tmpl += "{" + conv + "}"
                args.append(v.value)
            else:
                return node
        if not args:
            return node
        return ast.copy_location(ast.Call(func=ast.Attribute(value=ast.Constant(tmpl), attr="format", ctx=ast.Load()), args=args, keywords=[]), node)


def alpha_rename(src: str, filename: str) -> str:
    """Rename function-local variables consistently (suffix `_`): names bound in the function scope that are not
    parameters, not global/nonlocal, and not mentioned inside a nested def / lambda / class.  Uses inside
    comprehensions are renamed as well unless the comprehension binds the same name itself."""
    tree = ast.parse(src)
    COMPS = (ast.ListComp, ast.SetComp, ast.DictComp, ast.GeneratorExp)

    def own(fn):
        todo = list(ast.iter_child_nodes(fn))
        while todo:
            n = todo.pop()
            yield n
            if isinstance(n, (ast.FunctionDef, ast.AsyncFunctionDef, ast.ClassDef, ast.Lambda)):
                continue
            if isinstance(n, COMPS):
                todo.append(n.generators[0].iter)
                continue
            todo.extend(ast.iter_child_nodes(n))

    def plan(fn) -> set[str]:
        a = fn.args
        params = {x.arg for x in a.posonlyargs + a.args + a.kwonlyargs} | ({a.vararg.arg} if a.vararg else set()) | ({a.kwarg.arg} if a.kwarg else set())
        bound, declared, nested = set(), set(), set()
        for n in own(fn):
            if isinstance(n, ast.Name) and isinstance(n.ctx, (ast.Store, ast.Del)):
                bound.add(n.id)
            elif isinstance(n, ast.ExceptHandler) and n.name:
                bound.add(n.name)
            elif isinstance(n, (ast.Global, ast.Nonlocal)):
                declared.update(n.names)
            elif isinstance(n, (ast.FunctionDef, ast.AsyncFunctionDef, ast.ClassDef, ast.Lambda)):
                nested.update(x.id for x in ast.walk(n) if isinstance(x, ast.Name))
                nested.update(x.arg for x in ast.walk(n) if isinstance(x, ast.arg))
                if not isinstance(n, ast.Lambda):
                    bound.discard(n.name)
                    nested.add(n.name)
            elif isinstance(n, (ast.Import, ast.ImportFrom)):
                nested.update((al.asname or al.name).split(".")[0] for al in n.names)
        every = {x.id for x in ast.walk(fn) if isinstance(x, ast.Name)}
        return {b for b in bound if b not in params and b not in declared and b not in nested and not b.startswith("__")
                and (b + "_") not in every}

    def binds(comp, name):
        return any(isinstance(x, ast.Name) and x.id == name for g in comp.generators for x in ast.walk(g.target))

    def rename(fn, names):
        def rec(node, active):
            for child in ast.iter_child_nodes(node):
                if isinstance(child, (ast.FunctionDef, ast.AsyncFunctionDef, ast.ClassDef, ast.Lambda)):
                    continue
                if isinstance(child, COMPS):
                    rec_first = child.generators[0].iter
                    visit(rec_first, active)
                    inner = {n for n in active if not binds(child, n)}
                    for g_i, g in enumerate(child.generators):
                        visit(g.target, inner)
                        if g_i > 0:
                            visit(g.iter, inner)
                        for c in g.ifs:
                            visit(c, inner)
                    for f in ("key", "value", "elt"):
                        if hasattr(child, f):
                            visit(getattr(child, f), inner)
                    continue
                visit(child, active)

        def visit(node, active):
            if isinstance(node, ast.Name) and node.id in active:
                node.id = node.id + "_"
            elif isinstance(node, ast.ExceptHandler) and node.name in active:
                node.name = node.name + "_"
            if isinstance(node, (ast.FunctionDef, ast.AsyncFunctionDef, ast.ClassDef, ast.Lambda)):
                return
            if isinstance(node, COMPS):
                wrapper = ast.Expr(value=node)
                rec(wrapper, active)
                return
            rec(node, active)

        for st in fn.body:
            visit(st, names)

    for fn in [n for n in ast.walk(tree) if isinstance(n, (ast.FunctionDef, ast.AsyncFunctionDef))]:
        rename(fn, plan(fn))
    ast.fix_missing_locations(tree)
    return ast.unparse(tree)


def comp_rename(src: str) -> str:
    """T7: rename the variables of every comprehension (their scope is the comprehension itself)."""
    tree = ast.parse(src)
    COMPS = (ast.ListComp, ast.SetComp, ast.DictComp, ast.GeneratorExp)
    for c in [n for n in ast.walk(tree) if isinstance(n, COMPS)]:
        first = set(map(id, ast.walk(c.generators[0].iter)))
        own = [x for x in ast.walk(c) if id(x) not in first]
        names = {n.id for g in c.generators for n in ast.walk(g.target) if isinstance(n, ast.Name)}
        used = {x.id for x in own if isinstance(x, ast.Name)}
        for v in names:
            if v + "_c" in used or v.endswith("_c"):
                continue
            for x in own:
                if isinstance(x, ast.Name) and x.id == v:
                    x.id = v + "_c"
    return ast.unparse(tree)


def transform(name: str, src: str, filename: str) -> str:
    if name == "T7":
        return comp_rename(src)
    if name == "T0":
        return ast.unparse(ast.parse(src))
    if name == "T1":
        return alpha_rename(src, filename)
    tr = {"T2": SwapElse, "T3": DeMorgan, "T4": IsNotNone, "T5": TempReturn, "T6": AugExtend, "T8": LoopToComp, "T9": ReturnElse,
          "T10": FlattenElse, "T11": IfExpToStmt, "T12": HoistArg, "T14": FStringToFormat, "T15": SwapEq, "T16": BoolReturn, "T17": AddDebugLog, "T18": GuardInvert, "T19": MergeNestedIf, "T20": SplitAndIf}[name]()
    tree = tr.visit(ast.parse(src))
    ast.fix_missing_locations(tree)
    return ast.unparse(tree)


# ------------------------------------------------------------------ driver
def build(name: str) -> Path:
    scratch = Path(tempfile.mkdtemp(prefix=f"verif-auto-{name}-"))
    shutil.copytree("/repo/src", scratch / "src", ignore=shutil.ignore_patterns("__pycache__", "locale", "*.mo"))
    changed = 0
    if name == "T13":
        files = sorted((scratch / "src" / "reuse").rglob("*.py"))
        srcs = {str(f): f.read_text(encoding="utf-8") for f in files}
        out = keywordise(srcs)
        for f in files:
            src = srcs[str(f)]
            header = "".join(l for l in src.splitlines(keepends=True)[:6] if l.startswith("#"))
            compile(out[str(f)], str(f), "exec")
            if ast.dump(ast.parse(out[str(f)])) != ast.dump(ast.parse(src)):
                changed += 1
            f.write_text(header + out[str(f)] + "\n", encoding="utf-8")
        print(f"[{name}] modules whose AST changed: {changed}", flush=True)
        return scratch
    for path in sorted((scratch / "src" / "reuse").rglob("*.py")):
        src = path.read_text(encoding="utf-8")
        header = "".join(l for l in src.splitlines(keepends=True)[:6] if l.startswith("#"))
        new = transform(name, src, str(path))
        compile(new, str(path), "exec")
        if ast.dump(ast.parse(new)) != ast.dump(ast.parse(src)):
            changed += 1
        path.write_text(header + new + "\n", encoding="utf-8")
    print(f"[{name}] modules whose AST changed: {changed}", flush=True)
    return scratch


def run_check(args) -> tuple[str, str, int, str]:
    name, prop, scratch = args
    env = dict(os.environ, VERIF_REPO=str(scratch), VERIF_SELFTEST="1")
    cp = subprocess.run(["/venv/bin/python", str(HERE / "check.py"), prop, "--tier", "quick"], capture_output=True, text=True,
                        env=env, cwd=str(HERE))
    out = cp.stdout + cp.stderr
    lines = [l for l in out.splitlines() if l.startswith(("REPORT", "ANALYSIS", "Traceback")) or "Error" in l]
    return name, prop, cp.returncode, " ; ".join(l[:260] for l in lines[:3])


def main() -> int:
    ap = argparse.ArgumentParser()
    ap.add_argument("transforms", nargs="*", default=[])
    ap.add_argument("-p", nargs="*", default=[])
    ap.add_argument("--keep", action="store_true")
    ns = ap.parse_args()
    names = ns.transforms or ["T0", "T1", "T2", "T3", "T4", "T5", "T6", "T7", "T8", "T9", "T10", "T11", "T12", "T13", "T14", "T15", "T16", "T17", "T18", "T19", "T20"]
    props = ns.p or PROPS
    bad = 0
    for name in names:
        scratch = build(name)
        try:
            # the transformed package must still import-compile as a whole
            cp = subprocess.run(["/venv/bin/python", "-m", "compileall", "-q", str(scratch / "src" / "reuse")], capture_output=True, text=True)
            if cp.returncode != 0:
                print(f"FAIL {name}: transformed package does not compile: {cp.stdout[-300:]}")
                bad += 1
                continue
            with cf.ThreadPoolExecutor(16) as ex:
                for n, prop, rc, why in ex.map(run_check, [(name, p, scratch) for p in props]):
                    ok = rc == 0
                    print(f"{'ok  ' if ok else 'FAIL'} {n}:{prop} exit={rc} {why}")
                    bad += 0 if ok else 1
        finally:
            if not ns.keep:
                shutil.rmtree(scratch, ignore_errors=True)
            else:
                print("kept", scratch)
    print(f"false alarms: {bad}")
    return 1 if bad else 0


if __name__ == "__main__":
    sys.exit(main())
