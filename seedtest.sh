#!/bin/bash
# usage: seedtest.sh <patch.diff> <Cnn> [Cnn...]  - apply a seeded change to /repo, run checks, undo
set -u
patch="$1"; shift
cd /repo || exit 9
if ! git diff --quiet; then echo "repo has uncommitted changes"; exit 9; fi
git apply "$patch" || { echo "patch does not apply"; exit 9; }
for p in "$@"; do
  /venv/bin/python /verif/check.py "$p" --tier "${TIER:-quick}" 2>&1 | grep -v conda | cut -c1-420 | grep -E "REPORT|VIOLATION|ANALYSIS|quick:|thorough:" | head -${LINES_MAX:-8}
done
git checkout -- . && git status --short | head -3
