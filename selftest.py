#!/venv/bin/python
"""Self-test of the checkers (not a registered check).

Each variant copies /repo/src to a scratch directory outside /repo and /verif,
applies one textual edit (must match exactly once), runs the property's check
with VERIF_REPO pointing at the copy and compares the verdict:
  F = must fire (exit 1, the named rule in a REPORT line)
  S = must stay silent (exit 0)
Variants live in selftest_variants.py.  usage: selftest.py [Cnn ...] [-j N]
"""
from __future__ import annotations

import argparse
import concurrent.futures as cf
import os
import shutil
import subprocess
import sys
import tempfile
from pathlib import Path

HERE = Path(__file__).resolve().parent
sys.path.insert(0, str(HERE))


def run_variant(var: dict) -> tuple[dict, bool, str]:
    scratch = Path(tempfile.mkdtemp(prefix="verif-selftest-"))
    try:
        shutil.copytree("/repo/src", scratch / "src", ignore=shutil.ignore_patterns("__pycache__", "locale", "*.mo"))
        for edit in var["edits"]:
            path = scratch / edit["file"]
            text = path.read_text(encoding="utf-8")
            n = text.count(edit["old"])
            if n != 1:
                return var, False, f"edit does not apply exactly once ({n}x) in {edit['file']}: {edit['old'][:60]!r}"
            path.write_text(text.replace(edit["old"], edit["new"]), encoding="utf-8")
        if "patchfile" in var:  # a stored seeded change (unified diff relative to the repository root)
            cp = subprocess.run(["patch", "-p1", "-s", "-i", var["patchfile"]], cwd=str(scratch), capture_output=True, text=True)
            if cp.returncode != 0:
                return var, False, "seed patch does not apply: " + (cp.stdout + cp.stderr)[-200:]
        if "sed" in var:  # replace-all edit
            f, old, new = var["sed"]
            path = scratch / f
            path.write_text(path.read_text(encoding="utf-8").replace(old, new), encoding="utf-8")
        if "resub" in var:  # regex replace-all edit (word-boundary renames)
            import re
            f, pat, new = var["resub"]
            path = scratch / f
            text = path.read_text(encoding="utf-8")
            text2 = re.sub(pat, new, text)
            if text2 == text:
                return var, False, f"regex edit changes nothing: {pat}"
            path.write_text(text2, encoding="utf-8")
            cp = subprocess.run(["/venv/bin/python", "-m", "py_compile", str(path)], capture_output=True, text=True)
            if cp.returncode != 0:
                return var, False, "variant does not compile: " + cp.stderr[-200:]
        # the variant must still be valid Python
        for edit in var["edits"]:
            if edit["file"].endswith(".py"):
                cp = subprocess.run(["/venv/bin/python", "-m", "py_compile", str(scratch / edit["file"])],
                                    capture_output=True, text=True)
                if cp.returncode != 0:
                    return var, False, "variant does not compile: " + cp.stderr[-200:]
        env = dict(os.environ, VERIF_REPO=str(scratch), VERIF_SELFTEST="1")
        cp = subprocess.run(
            ["/venv/bin/python", str(HERE / "check.py"), var["prop"], "--tier", var.get("tier", "quick")],
            capture_output=True, text=True, env=env, cwd=str(HERE),
        )
        out = cp.stdout + cp.stderr
        if var["expect"] == "F":
            rule = f"REPORT {var['prop']}-{var['rule']} "
            ok = cp.returncode == 1 and rule in out
            why = "" if ok else f"expected exit 1 with {rule.strip()}, got exit {cp.returncode}"
        elif var["expect"] == "N":   # never a violation: silent or honestly undecided
            ok = cp.returncode in (0, 2) and "VIOLATION" not in out
            why = "" if ok else f"expected no violation (exit 0 or 2), got exit {cp.returncode}"
        elif var["expect"] == "U":
            ok = cp.returncode == 2 and "ANALYSIS-ERROR" in out and "VIOLATION" not in out
            why = "" if ok else f"expected exit 2 (undecided), got exit {cp.returncode}"
        else:
            ok = cp.returncode == 0 and "VIOLATION" not in out
            why = "" if ok else f"expected silent exit 0, got exit {cp.returncode}"
        if not ok:
            lines = [l for l in out.splitlines() if l.startswith(("REPORT", "ANALYSIS", "VIOLATION", "Traceback"))
                     or "Error" in l]
            why += " | " + " ; ".join(lines[:4])
        return var, ok, why
    finally:
        shutil.rmtree(scratch, ignore_errors=True)


def main() -> int:
    from selftest_variants import VARIANTS
    import json
    import re
    # every confirmed seeded change must be caught by the checks recorded in its meta.json
    for meta_path in sorted((HERE / "seeded").glob("*/meta.json")):
        meta = json.loads(meta_path.read_text())
        for cb in meta.get("caught_by", []):
            for m in re.finditer(r"\b(C\d\d)-((?:C\d\d\.)?(?:R\w+|H\b))", cb.split(" - ")[0]):
                VARIANTS.append({"prop": m.group(1), "id": f"{m.group(1)}:seed-{meta_path.parent.name}", "expect": "F",
                                 "rule": m.group(2), "edits": [], "patchfile": str(meta_path.parent / "patch.diff")})

        if meta.get("retired"):
            # a repair of the repository made this change harmless: the checks must now stay silent on it
            VARIANTS.append({"prop": meta["property"], "id": f"{meta['property']}:retired-seed-{meta_path.parent.name}", "expect": "S", "rule": "",
                             "edits": [], "patchfile": str(meta_path.parent / "patch.diff")})
            continue
        if not meta.get("caught_by") and meta.get("not_decided"):
            # an honest 'cannot decide': the check must stop with exit 2, neither pass nor invent a violation
            VARIANTS.append({"prop": meta["property"], "id": f"{meta['property']}:seed-{meta_path.parent.name}", "expect": "U", "rule": "",
                             "edits": [], "patchfile": str(meta_path.parent / "patch.diff")})

    ap = argparse.ArgumentParser()
    ap.add_argument("props", nargs="*")
    ap.add_argument("-j", type=int, default=16)
    ap.add_argument("-k", default="")
    ns = ap.parse_args()
    todo = [v for v in VARIANTS if (not ns.props or v["prop"] in ns.props) and ns.k in v["id"]]
    bad = 0
    with cf.ThreadPoolExecutor(ns.j) as ex:
        for var, ok, why in ex.map(run_variant, todo):
            print(f"{'ok  ' if ok else 'FAIL'} {var['id']:<44} {var['expect']} {var.get('rule', ''):<4} {why}")
            bad += 0 if ok else 1
    print(f"{len(todo) - bad}/{len(todo)} variants behave as expected")
    return 1 if bad else 0


if __name__ == "__main__":
    sys.exit(main())
