"""Scratch-copy variants for selftest.py (F = must fire, S = must stay silent)."""

VARIANTS: list[dict] = []


def V(prop, vid, expect, rule, file, old, new, **kw):
    VARIANTS.append({"prop": prop, "id": f"{prop}:{vid}", "expect": expect, "rule": rule,
                     "edits": [{"file": file, "old": old, "new": new}], **kw})


def V2(prop, vid, expect, rule, edits, **kw):
    VARIANTS.append({"prop": prop, "id": f"{prop}:{vid}", "expect": expect, "rule": rule,
                     "edits": [{"file": f, "old": o, "new": n} for f, o, n in edits], **kw})


R = "src/reuse/"

# ----------------------------------------------------------------- C01
V("C01", "drop-read-errors-from-verdict", "F", "R1", R + "report.py",
  "                self.files_without_licenses,\n                self.read_errors,\n            )\n        )\n\n        return self._is_compliant",
  "                self.files_without_licenses,\n            )\n        )\n\n        return self._is_compliant")
V("C01", "exit-0-always", "F", "R2", R + "cli/lint.py",
  "sys.exit(0 if report.is_compliant else 1)", "sys.exit(0)")
V("C01", "exit-quiet-0", "F", "R2", R + "cli/lint.py",
  "    if quiet:\n        pass\n", "    if quiet:\n        sys.exit(0)\n")
V("C01", "drop-read-error-add", "F", "R3", R + "report.py",
  "                project_report.read_errors.add(Path(result.path))\n", "")
V("C01", "drop-continue", "F", "R3", R + "report.py",
  "                project_report.read_errors.add(Path(result.path))\n                continue\n",
  "                project_report.read_errors.add(Path(result.path))\n")
V("C01", "deprecated-negated", "F", "R3", R + "report.py",
  'elif project.license_map[name]["isDeprecatedLicenseId"]:', 'elif not project.license_map[name]["isDeprecatedLicenseId"]:')
V("C01", "bad-licenses-not-propagated", "F", "R3", R + "report.py",
  "            for bad_license in file_report.bad_licenses:\n                project_report.bad_licenses.setdefault(bad_license, set()).add(\n                    file_report.path\n                )\n",
  "")
V("C01", "copyright-filter-inverted", "F", "R4", R + "report.py",
  "            for file_report in self.file_reports\n            if not file_report.copyright\n        }\n\n        return self._files_without_copyright",
  "            for file_report in self.file_reports\n            if file_report.copyright\n        }\n\n        return self._files_without_copyright")
V("C01", "copyright-first-source-only", "F", "R5", R + "report.py",
  "                for reuse_info in reuse_infos\n                for line in reuse_info.copyright_lines\n            )\n        )\n        # Source",
  "                for reuse_info in reuse_infos[:1]\n                for line in reuse_info.copyright_lines\n            )\n        )\n        # Source")
V("C01", "verdict-as-all-not", "S", "", R + "report.py",
  "        self._is_compliant = not any(\n            (",
  "        self._is_compliant = all(\n            not c for c in (")
V("C01", "exit-if-form", "S", "", R + "cli/lint.py",
  "    sys.exit(0 if report.is_compliant else 1)", "    if report.is_compliant:\n        sys.exit(0)\n    sys.exit(1)")
V("C01", "ninth-collection-ignored", "F", "R1", R + "report.py",
  "        self.read_errors: set[Path] = set()\n        self.file_reports: set[FileReport] = set()\n        self.licenses_without_extension",
  "        self.read_errors: set[Path] = set()\n        self.unlicensed_snippets: set[Path] = set()\n        self.file_reports: set[FileReport] = set()\n        self.licenses_without_extension")
