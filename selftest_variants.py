"""Scratch-copy variants for selftest.py (F = must fire, S = must stay silent)."""

VARIANTS: list[dict] = []


def V(prop, vid, expect, rule, file, old, new, **kw):
    VARIANTS.append({"prop": prop, "id": f"{prop}:{vid}", "expect": expect, "rule": rule,
                     "edits": [{"file": file, "old": old, "new": new}], **kw})


def V2(prop, vid, expect, rule, edits, **kw):
    VARIANTS.append({"prop": prop, "id": f"{prop}:{vid}", "expect": expect, "rule": rule,
                     "edits": [{"file": f, "old": o, "new": n} for f, o, n in edits], **kw})


R = "src/reuse/"

# ----------------------------------------------------------------- C01
V("C01", "drop-read-errors-from-verdict", "F", "R1", R + "report.py",
  "                self.files_without_licenses,\n                self.read_errors,\n            )\n        )\n\n        return self._is_compliant",
  "                self.files_without_licenses,\n            )\n        )\n\n        return self._is_compliant")
V("C01", "exit-0-always", "F", "R2", R + "cli/lint.py",
  "sys.exit(0 if report.is_compliant else 1)", "sys.exit(0)")
V("C01", "exit-quiet-0", "F", "R2", R + "cli/lint.py",
  "    if quiet:\n        pass\n", "    if quiet:\n        sys.exit(0)\n")
V("C01", "drop-read-error-add", "F", "R3", R + "report.py",
  "                project_report.read_errors.add(Path(result.path))\n", "")
V("C01", "drop-continue", "F", "R3", R + "report.py",
  "                project_report.read_errors.add(Path(result.path))\n                continue\n",
  "                project_report.read_errors.add(Path(result.path))\n")
V("C01", "deprecated-negated", "F", "R3", R + "report.py",
  'elif project.license_map[name]["isDeprecatedLicenseId"]:', 'elif not project.license_map[name]["isDeprecatedLicenseId"]:')
V("C01", "bad-licenses-not-propagated", "F", "R3", R + "report.py",
  "            for bad_license in file_report.bad_licenses:\n                project_report.bad_licenses.setdefault(bad_license, set()).add(\n                    file_report.path\n                )\n",
  "")
V("C01", "copyright-filter-inverted", "F", "R4", R + "report.py",
  "            for file_report in self.file_reports\n            if not file_report.copyright\n        }\n\n        return self._files_without_copyright",
  "            for file_report in self.file_reports\n            if file_report.copyright\n        }\n\n        return self._files_without_copyright")
V("C01", "copyright-first-source-only", "F", "R5", R + "report.py",
  "                for reuse_info in reuse_infos\n                for line in reuse_info.copyright_lines\n            )\n        )\n        # Source",
  "                for reuse_info in reuse_infos[:1]\n                for line in reuse_info.copyright_lines\n            )\n        )\n        # Source")
V("C01", "verdict-as-all-not", "S", "", R + "report.py",
  "        self._is_compliant = not any(\n            (",
  "        self._is_compliant = all(\n            not c for c in (")
V("C01", "exit-if-form", "S", "", R + "cli/lint.py",
  "    sys.exit(0 if report.is_compliant else 1)", "    if report.is_compliant:\n        sys.exit(0)\n    sys.exit(1)")
V("C01", "ninth-collection-ignored", "F", "R1", R + "report.py",
  "        self.read_errors: set[Path] = set()\n        self.file_reports: set[FileReport] = set()\n        self.licenses_without_extension",
  "        self.read_errors: set[Path] = set()\n        self.unlicensed_snippets: set[Path] = set()\n        self.file_reports: set[FileReport] = set()\n        self.licenses_without_extension")

# ----------------------------------------------------------------- C03
CFP = R + "covered_files.py"
V("C03", "license-only-S", "F", "R1", CFP, 're.compile(r"^LICEN[CS]E([-\\.].*)?$", re.DOTALL)', 're.compile(r"^LICENSE([-\\.].*)?$", re.DOTALL)')
V("C03", "license-suffix-any", "F", "R1", CFP, 're.compile(r".*\\.license$", re.DOTALL)', 're.compile(r".*license$", re.DOTALL)')
V("C03", "makefile-ignored", "F", "R1", CFP, '    re.compile(r"^\\.hgtags$"),\n', '    re.compile(r"^\\.hgtags$"),\n    re.compile(r"^Makefile$"),\n')
V("C03", "spdx-dot-unescaped-again", "F", "R1", CFP, 're.compile(r".*\\.spdx\\.(rdf|json|xml|ya?ml)$", re.DOTALL)', 're.compile(r".*\\.spdx.(rdf|json|xml|ya?ml)$", re.DOTALL)')
V("C03", "copying-prefix", "F", "R1", CFP, 're.compile(r"^COPYING([-\\.].*)?$", re.DOTALL)', 're.compile(r"^COPYING.*$", re.DOTALL)')
# under fullmatch() the anchors of an entry are redundant: dropping one is not a different language any more
V("C03", "reuse-dir-unanchored", "S", "", CFP, 're.compile(r"^\\.reuse$")', 're.compile(r"^\\.reuse")')
V("C03", "reuse-dir-prefix-language", "F", "R1", CFP, 're.compile(r"^\\.reuse$")', 're.compile(r"^\\.reuse.*")')
V("C03", "no-symlink-test", "F", "R2", CFP, "    if path.is_symlink():\n        _LOGGER.debug(\"skipping symlink '%s'\", path)\n        return True\n", "")
V("C03", "size-le-1", "F", "R2", CFP, "if path.stat().st_size == 0:", "if path.stat().st_size <= 1:")
V("C03", "submodule-flag-inverted", "F", "R2", CFP, "            not include_submodules\n            and vcs_strategy", "            include_submodules\n            and vcs_strategy")
V("C03", "reuse-toml-always-included", "F", "R2", CFP, 'name != "REUSE.toml" or not include_reuse_tomls', 'name != "REUSE.toml"')
V("C03", "vcs-ignore-only-files", "F", "R2", CFP, "    if vcs_strategy and vcs_strategy.is_ignored(path):\n        return True\n\n    return False",
  "    if path.is_file() and vcs_strategy and vcs_strategy.is_ignored(path):\n        return True\n\n    return False")
V("C03", "swap-include-flags", "F", "R4", R + "project.py",
  "            directory,\n            include_submodules=self.include_submodules,\n            include_meson_subprojects=self.include_meson_subprojects,",
  "            directory,\n            include_submodules=self.include_meson_subprojects,\n            include_meson_subprojects=self.include_submodules,")
V("C03", "iterate-dirs-without-copy", "F", "R3", CFP, "for dir_ in list(dirs):", "for dir_ in dirs:")
V("C03", "no-prune", "F", "R3", CFP, "                dirs.remove(dir_)\n", "")
V("C03", "yield-ignored", "F", "R3", CFP, "                _LOGGER.debug(\"ignoring '%s'\", the_file)\n                continue\n", "                _LOGGER.debug(\"ignoring '%s'\", the_file)\n")
V("C03", "drop-z", "F", "R5", R + "vcs.py", '            "--directory",\n            # Separate output with \\0 instead of \\n.\n            "-z",\n', '            "--directory",\n')
V("C03", "file-loop-drops-vcs", "F", "R3", CFP,
  "                include_reuse_tomls=include_reuse_tomls,\n                vcs_strategy=vcs_strategy,\n            ):\n                _LOGGER.debug(\"ignoring '%s'\", the_file)",
  "                include_reuse_tomls=include_reuse_tomls,\n            ):\n                _LOGGER.debug(\"ignoring '%s'\", the_file)")
V("C03", "tomls-without-flag", "F", "R4", R + "global_licensing.py", "                include_reuse_tomls=True,\n", "")
V("C03", "annotate-own-walk", "F", "R4", R + "cli/annotate.py", "all_files = [path.resolve() for path in project.all_files()]",
  "all_files = [path.resolve() for path in Path(project.root).rglob('*')]")
V("C03", "vcs-test-first", "S", "", CFP,
  "    if path.is_symlink():\n        _LOGGER.debug(\"skipping symlink '%s'\", path)\n        return True\n",
  "    if vcs_strategy and vcs_strategy.is_ignored(path):\n        return True\n    if path.is_symlink():\n        _LOGGER.debug(\"skipping symlink '%s'\", path)\n        return True\n")
V("C03", "parent-name", "S", "", CFP, '    parent_dir = parent_parts[-1] if len(parent_parts) > 0 else ""\n', '    parent_dir = path.parent.name\n')

# ----------------------------------------------------------------- C05
GLP = R + "global_licensing.py"
V("C05", "single-star-crosses-slash", "F", "R2", GLP,
  '                    if prev_char == "*" and not globstar:\n                        blocks.append(r"[^/]*")\n                    blocks.append(re.escape(char))',
  '                    if prev_char == "*" and not globstar:\n                        blocks.append(r".*")\n                    blocks.append(re.escape(char))')
V("C05", "no-escape-of-literals", "F", "R1", GLP, "                    blocks.append(re.escape(char))\n", "                    blocks.append(char)\n")
V("C05", "escaping-not-reset", "F", "R2", GLP,
  "                    blocks.append(re.escape(char))\n                    globstar = False\n                    escaping = False\n",
  "                    blocks.append(re.escape(char))\n                    globstar = False\n")
V("C05", "escaped-star-arms-wildcard-again", "F", "R2", GLP,
  "                        # A literal asterisk must not arm the wildcard logic.\n                        char = \"\"\n", "")
V("C05", "unanchored", "S", "", GLP, 'return f"^({result})$"', 'return f"({result})"')   # redundant under fullmatch()
V("C05", "prefix-language", "F", "R2", GLP, 'return f"^({result})$"', 'return f"^({result}).*$"')
V("C05", "search-instead-of-match", "F", "R2", GLP, "return bool(self._paths_regex.fullmatch(path))", "return bool(self._paths_regex.search(path))")   # every alternative is anchored at both ends; the trailing-newline reading of `$` is what differs
V("C05", "match-instead-of-fullmatch", "F", "R2", GLP, "return bool(self._paths_regex.fullmatch(path))", "return bool(self._paths_regex.match(path))")
V("C05", "trailing-star-dropped", "F", "R2", GLP,
  '            if prev_char == "*" and not globstar:\n                blocks.append(r"[^/]*")\n            result = "".join(blocks)', '            result = "".join(blocks)')
V("C05", "no-posix", "F", "R3", GLP,
  '        path = PurePath(path).as_posix()\n        for item in reversed(self.annotations):', '        path = str(path)\n        for item in reversed(self.annotations):')
VARIANTS.append({"prop": "C05", "id": "C05:rename-state-vars", "expect": "S", "rule": "", "edits": [], "sed": ("src/reuse/global_licensing.py", "globstar", "dbl_star")})

# ----------------------------------------------------------------- C17
V("C17", "unlink-before-write", "F", "R1", R + "cli/convert_dep5.py",
  '    (project.root / "REUSE.toml").write_text(text, encoding="utf-8")\n    (project.root / ".reuse/dep5").unlink()',
  '    (project.root / ".reuse/dep5").unlink()\n    (project.root / "REUSE.toml").write_text(text, encoding="utf-8")')
V("C17", "no-refusal", "F", "R1", R + "cli/convert_dep5.py",
  '    if not (project.root / ".reuse/dep5").exists():\n        raise click.UsageError(_("No \'.reuse/dep5\' file."))\n', '')
V("C17", "precedence-closest", "F", "R2", R + "convert_dep5.py", '"precedence": "aggregate",', '"precedence": "closest",')
V("C17", "single-star-kept", "F", "R3", R + "convert_dep5.py", 'return _SINGLE_ASTERISK_PATTERN.sub("**", path)', 'return _SINGLE_ASTERISK_PATTERN.sub("*", path)')
V("C17", "pattern-needs-no-lookbehind", "F", "R3", R + "convert_dep5.py", r're.compile(r"(?<!\*)\*(?!\*)")', r're.compile(r"\*(?!\*)")')
V("C17", "key-renamed", "F", "R2", R + "convert_dep5.py", '"SPDX-FileCopyrightText": copyrights,', '"SPDX-FileCopyright": copyrights,')
V("C17", "first-path-only", "F", "R2", R + "convert_dep5.py", "[_convert_asterisk(path) for path in list(paragraph.files)]", "[_convert_asterisk(path) for path in list(paragraph.files)[:1]]")

# ----------------------------------------------------------------- C02
EXP = R + "extract.py"
V("C02", "tag-separator-optional", "F", "R2", EXP, 'r"^(.*?)SPDX-License-Identifier:[ \\t]+(.*?)" + _END_PATTERN', 'r"^(.*?)SPDX-License-Identifier:[ \\t]*(.*?)" + _END_PATTERN')
V("C02", "greedy-value", "F", "R2", EXP, 'r"^(.*?)SPDX-FileContributor:[ \\t]+(.*?)" + _END_PATTERN', 'r"^(.*?)SPDX-FileContributor:[ \\t]+(.*)" + _END_PATTERN')
V("C02", "header-2048", "F", "R5", EXP, "_HEADER_BYTES = 4096", "_HEADER_BYTES = 2048")
V("C02", "no-seek", "F", "R5", EXP, "            # Reset read position\n            fp.seek(0)\n", "")
V("C02", "parse-error-keeps-info", "F", "R5", EXP,
  "                ).format(path=path)\n            )\n    return ReuseInfo()",
  "                ).format(path=path)\n            )\n            return ReuseInfo(copyright_lines={'x'})\n    return ReuseInfo()")
V("C02", "strict-decode", "F", "R5", EXP, 'rawdata.decode("utf-8", errors="replace")', 'rawdata.decode("utf-8", errors="strict")')
V("C02", "rstrip-chars", "F", "R4", EXP, "        yield value.strip()\n", "        yield value.strip().rstrip('/*')\n")
V("C02", "only-single-line-styles-terminators", "F", "R1", EXP, "                    if style.MULTI_LINE.end\n", "                    if style.MULTI_LINE.end and not style.SINGLE_LINE\n")
V("C02", "snippet-limits-read", "F", "R5", EXP, "                read_limit = None\n", "                read_limit = _HEADER_BYTES * 2\n")
V("C02", "no-break-after-match", "F", "R7", EXP, "                copyright_matches.add(match.groupdict()[\"copyright\"].strip())\n                break\n", "                copyright_matches.add(match.groupdict()[\"copyright\"].strip())\n")
V("C02", "new-style-end-in-V", "F", "R3", R + "comment.py", '    MULTI_LINE = MultiLineSegments("{#", "", "#}")', '    MULTI_LINE = MultiLineSegments("{#", "", "-or-later")')
V("C02", "reorder-special-endings", "S", "", EXP,
  "                        r'\"\\s*/*>',\n                        r\"'\\s*/*>\",\n", "                        r\"'\\s*/*>\",\n                        r'\"\\s*/*>',\n")
V("C02", "named-groups", "S", "", EXP, 'r"^(.*?)SPDX-License-Identifier:[ \\t]+(.*?)" + _END_PATTERN', 'r"^(?P<prefix>.*?)SPDX-License-Identifier:[ \\t]+(?P<value>.*?)" + _END_PATTERN')

# ----------------------------------------------------------------- C12
V("C12", "truthiness-again", "F", "R1", EXP, "    if ignore_start is None:\n        return text\n", "    if not ignore_start:\n        return text\n")
V("C12", "truthiness-table", "F", "R2", EXP, "    if ignore_start is None:\n        return text\n", "    if not ignore_start:\n        return text\n")
V("C12", "search-original-text", "F", "R3", EXP, "    text = filter_ignore_block(text)\n    spdx_tags", "    filtered = filter_ignore_block(text)\n    spdx_tags")
V("C12", "stray-end-aborts", "F", "R2", EXP, "    if ignore_end > ignore_start:\n", "    if ignore_end < ignore_start:\n        return text\n    if ignore_end > ignore_start:\n")
V("C12", "end-marker-kept", "F", "R2", EXP, "        ignore_end = text.index(REUSE_IGNORE_END) + len(REUSE_IGNORE_END)\n", "        ignore_end = text.index(REUSE_IGNORE_END)\n")
V("C12", "no-recursion", "F", "R2", EXP, "        return text[:ignore_start] + filter_ignore_block(text[ignore_end:])\n", "        return text[:ignore_start] + text[ignore_end:]\n")
V("C12", "is-not-none-form", "S", "", EXP, "    if ignore_start is None:\n        return text\n", "    if not (ignore_start is not None):\n        return text\n")

# ----------------------------------------------------------------- C20
CPP = R + "copyright.py"
V("C20", "prefix-bracket-c", "F", "R1", CPP, '"string-c": "Copyright (C)",', '"string-c": "Copyright [C]",')
V("C20", "prefix-lowercase", "F", "R1", CPP, '"string": "Copyright",', '"string": "copyright",')
V("C20", "reader-no-symbol-after-copyright", "F", "R1", EXP, 'r"(?P<copyright>(?P<prefix>Copyright(\\s(\\([Cc]\\)|©))?)\\s+"', 'r"(?P<copyright>(?P<prefix>Copyright(\\s(\\([Cc]\\)))?)\\s+"')
V("C20", "year-needs-no-space-variants", "F", "R1", EXP,
  'r"(?P<copyright>(?P<prefix>©)\\s+"\n        r"((?P<year>\\d{4} ?- ?\\d{4}|\\d{4}),?\\s+)?"',
  'r"(?P<copyright>(?P<prefix>©)\\s+"\n        r"((?P<year>\\d{4}-\\d{4}|\\d{4}),?\\s+)?"')
V("C20", "builder-drops-year", "F", "R2", CPP, '        return f"{prefix} {year} {statement}"\n', '        return f"{prefix} {statement}"\n')
V("C20", "builder-reprefixes-notices", "F", "R2", CPP,
  "    for pattern in _COPYRIGHT_PATTERNS:\n        # Only a statement that begins with a copyright tag is a complete\n        # notice. A holder that merely contains the word (e.g. 'The Copyright\n        # Holders') still needs its prefix and year.\n        match = pattern.match(statement)\n        if match is not None:\n            return statement\n", "")
V("C20", "merge-min-min", "F", "R3", CPP, 'year = f"{min(years)} - {max(years)}"', 'year = f"{min(years)} - {min(years)}"')
V("C20", "merge-skips-yearless", "F", "R3", CPP, "        # get year range if any\n", "        if not line_info['year']:\n            continue\n        # get year range if any\n")
V("C20", "get-year-first-only", "F", "R4", R + "cli/annotate.py", 'year = f"{min(years)} - {max(years)}"', 'year = years[0]')
V("C20", "builder-if-else", "S", "", CPP,
  '    if year is not None:\n        return f"{prefix} {year} {statement}"\n    return f"{prefix} {statement}"',
  '    if year is None:\n        return f"{prefix} {statement}"\n    return f"{prefix} {year} {statement}"')

# ----------------------------------------------------------------- C04
PRJ = R + "project.py"
V("C04", "closest-first-only-again", "F", "R1", PRJ,
  "            for closest in global_results[PrecedenceType.CLOSEST]:\n                if file_result.copyright_lines:",
  "            for closest in global_results[PrecedenceType.CLOSEST][:1]:\n                if file_result.copyright_lines:")
V("C04", "swap-extends", "F", "R1", PRJ,
  "        result.extend(global_results[PrecedenceType.OVERRIDE])\n        result.extend(global_results[PrecedenceType.AGGREGATE])\n",
  "        result.extend(global_results[PrecedenceType.AGGREGATE])\n        result.extend(global_results[PrecedenceType.OVERRIDE])\n")
V("C04", "override-still-reads", "F", "R1", PRJ, "        elif is_binary(str(path)):\n            _LOGGER.info(\n                _(\n                    \"'{path}' was detected as a binary file; not searching its\"",
  "        if is_binary(str(path)):\n            _LOGGER.info(\n                _(\n                    \"'{path}' was detected as a binary file; not searching its\"")
V("C04", "aggregate-dropped", "F", "R1", PRJ, "        result.extend(global_results[PrecedenceType.AGGREGATE])\n", "")
V("C04", "closest-always", "F", "R1", PRJ, "        if not file_result.contains_copyright_or_licensing():\n            result.extend(global_results[PrecedenceType.CLOSEST])",
  "        if True:\n            result.extend(global_results[PrecedenceType.CLOSEST])")
V("C04", "wrong-attribute-blanked", "F", "R1", PRJ,
  "                if file_result.copyright_lines:\n                    closest = closest.copy(copyright_lines=set())\n                else:\n                    closest = closest.copy(spdx_expressions=set())",
  "                if file_result.copyright_lines:\n                    closest = closest.copy(spdx_expressions=set())\n                else:\n                    closest = closest.copy(copyright_lines=set())")
V("C04", "first-match-wins", "F", "R3", GLP, "        for item in reversed(self.annotations):", "        for item in self.annotations:")
V("C04", "no-break-at-override", "F", "R4", GLP, "            if item.precedence == PrecedenceType.OVERRIDE:\n                # No more!\n                break\n", "")
V("C04", "unsorted-tomls", "F", "R4", GLP, "        found.sort(key=lambda toml: toml.directory.parts)\n", "")
V("C04", "dep5-closest", "F", "R5", GLP, "            PrecedenceType.AGGREGATE: [\n                ReuseInfo(\n                    spdx_expressions=set(\n                        map(_LICENSING.parse",
  "            PrecedenceType.CLOSEST: [\n                ReuseInfo(\n                    spdx_expressions=set(\n                        map(_LICENSING.parse")
V("C04", "cleanup-keeps-outermost", "F", "R4", GLP, "        for info in reversed(result[PrecedenceType.CLOSEST]):", "        for info in result[PrecedenceType.CLOSEST]:")
V("C04", "cleanup-shared-flag", "F", "R4", GLP, "            if not licence_found and info.spdx_expressions:", "            if not copyright_found and info.spdx_expressions:")
V("C04", "conflict-tolerated", "F", "R6", PRJ, "            if candidates:\n                raise GlobalLicensingConflictError(", "            if candidates and False:\n                raise GlobalLicensingConflictError(")
V("C04", "license-sibling-ignored", "F", "R2", R + "_util.py", "    if not license_path.exists():\n        license_path = Path(path)\n    return license_path", "    license_path = Path(path)\n    return license_path")
V("C04", "reads-original-not-license", "F", "R1", PRJ, "            file_result = reuse_info_of_file(path, original_path, self.root)", "            file_result = reuse_info_of_file(original_path, original_path, self.root)")
V("C01", "error-results-treated-as-reports", "F", "R3", R + "report.py",
  "            if result.error:\n                _process_error(result.error, result.path)\n                project_report.read_errors.add(Path(result.path))\n                continue\n\n            file_report = cast(FileReport, result.report)\n\n            # File report.",
  "            file_report = cast(FileReport, result.report)\n\n            # File report.")

# ----------------------------------------------------------------- C06
RPT = R + "report.py"
V("C06", "plus-form-not-tried", "F", "R1", RPT,
  "                    if (\n                        plus_identifier := _strip_plus_from_identifier(\n                            identifier\n                        )\n                    ) != identifier:\n                        identifiers.add(plus_identifier)\n", "")
V("C06", "swap-map-and-provided", "F", "R1", RPT,
  "                    if not identifiers.intersection(project.license_map):\n                        report.bad_licenses.add(identifier)",
  "                    if not identifiers.intersection(project.licenses):\n                        report.bad_licenses.add(identifier)")
V("C06", "missing-only-if-not-bad", "F", "R1", RPT, "                    # Missing license\n                    if not identifiers", "                    # Missing license\n                    elif not identifiers")
V("C06", "glob-not-recursive", "F", "R4", PRJ, "glob.iglob(directory, recursive=True)", "glob.iglob(directory, recursive=False)")
V("C06", "unused-ignores-plus", "F", "R3", RPT, "for identifier in set((lic, _add_plus_to_identifier(lic)))", "for identifier in set((lic,))")
V("C06", "lowercase-identifier", "F", "R5", RPT, "                for identifier in _LICENSING.license_keys(expression):\n", "                for identifier in _LICENSING.license_keys(expression):\n                    identifier = identifier.lower()\n")
V("C06", "licenseref-allows-underscore", "F", "R5", EXP, '_LICENSEREF_PATTERN = re.compile(r"LicenseRef-[a-zA-Z0-9-.]+\\Z")', '_LICENSEREF_PATTERN = re.compile(r"LicenseRef-[a-zA-Z0-9-._]+\\Z")')
V("C06", "duplicates-overwrite", "F", "R4", PRJ, '                raise RuntimeError("Multiple licenses resolve to {identifier}")\n', "")
V("C06", "no-extension-not-recorded", "F", "R4", PRJ, "                    self.licenses_without_extension[identifier] = path\n", "")
V("C06", "strip-plus-strips-more", "F", "R1", R + "_util.py", '    if spdx_identifier.endswith("+"):\n        return spdx_identifier[:-1]', '    if spdx_identifier.endswith("+"):\n        return spdx_identifier[:-2]')
V("C06", "register-everything", "F", "R2", PRJ, "            if (\n                _LICENSEREF_PATTERN.match(identifier)\n                and \"Unknown\" not in identifier\n            ):", "            if True:")
V("C06", "inline-strip-plus", "S", "", RPT, "used_licenses = {\n            lic\n            for file_report in self.file_reports", "used_licenses = {\n            lic\n            for file_report in self.file_reports")

# ----------------------------------------------------------------- C13
LNT = R + "lint.py"
V("C13", "lines-no-unused", "F", "R1", LNT,
  "        # Unused licenses\n        for lic in sorted(report.unused_licenses):\n            lic_path = license_path(lic)\n            output.write(\n                _(\"{lic_path}: unused license\\n\").format(lic_path=lic_path)\n            )\n", "")
V("C13", "plain-read-errors-inverted", "F", "R1", LNT, "        if report.read_errors:\n            output.write(\"# \" + _(\"READ ERRORS\")", "        if not report.read_errors:\n            output.write(\"# \" + _(\"READ ERRORS\")")
V("C13", "plain-deprecated-wrong-attr", "F", "R1", LNT, "            for lic in sorted(report.deprecated_licenses):\n                output.write(f\"* {lic}\\n\")", "            for lic in sorted(report.unused_licenses):\n                output.write(f\"* {lic}\\n\")")
V("C13", "json-missing-licensing-swapped", "F", "R1", RPT,
  '                "missing_licensing_info": [\n                    str(file) for file in self.files_without_licenses\n                ],',
  '                "missing_licensing_info": [\n                    str(file) for file in self.files_without_copyright\n                ],')
V("C13", "counters-swapped", "F", "R2", RPT,
  '            "files_with_copyright_info": number_of_files\n            - len(self.files_without_copyright),',
  '            "files_with_copyright_info": number_of_files\n            - len(self.files_without_licenses),')
V("C13", "subset-verdict-ignores-read-errors", "F", "R3", RPT,
  "                self.files_without_licenses,\n                self.read_errors,\n            )\n        )\n\n\nclass FileReport",
  "                self.files_without_licenses,\n            )\n        )\n\n\nclass FileReport")
V("C13", "lint-file-exit-0", "F", "R4", R + "cli/lint_file.py", "    sys.exit(0 if report.is_compliant else 1)", "    sys.exit(0)")
V("C13", "subset-lines-drop-no-copyright", "F", "R3", LNT,
  "    # Without copyright\n    for path in report.files_without_copyright:\n        output.write(_(\"{path}: no copyright notice\\n\").format(path=path))\n", "")
V("C13", "lines-subset-only-when-quiet-flag", "F", "R1", LNT, "        subset_output = format_lines_subset(report)\n\n    return", "        subset_output = \"\"\n\n    return")
V("C13", "json-compliant-constant", "F", "R2", RPT, '            "compliant": self.is_compliant,', '            "compliant": not self.read_errors,')
V("C13", "subset-missing-licenses-dropped", "F", "R3c", RPT,
  "            for missing_license in file_report.missing_licenses:\n                subset_report.missing_licenses.setdefault(\n                    missing_license, set()\n                ).add(file_report.path)\n", "")
V("C13", "reorder-plain-sections", "S", "", LNT, "        # Deprecated licenses\n        if report.deprecated_licenses:", "        # Deprecated licenses (moved)\n        if report.deprecated_licenses:")

# ----------------------------------------------------------------- C18
V("C18", "sections-unsorted-list", "F", "R1", RPT, "        for report in reports:\n            out.write(\"\\n\")\n            out.write(f\"FileName:", "        for report in self.file_reports:\n            out.write(\"\\n\")\n            out.write(f\"FileName:")
V("C18", "no-checksum-tag", "F", "R1", RPT, '            out.write(f"FileChecksum: SHA1: {report.chk_sum}\\n")\n', "")
V("C18", "md5-checksum", "F", "R2", R + "_util.py", "from hashlib import sha1", "from hashlib import md5 as sha1")
V("C18", "spdx-random-checksums", "F", "R2", R + "cli/spdx.py", "        obj.project,\n        multiprocessing=not obj.no_multiprocessing,\n        add_license_concluded", "        obj.project,\n        do_checksum=False,\n        multiprocessing=not obj.no_multiprocessing,\n        add_license_concluded")
V("C18", "concluded-or", "F", "R3", RPT, '                    " AND ".join(', '                    " OR ".join(')
V("C18", "concluded-no-parens", "F", "R3", RPT, '                        f"({expression})"\n', '                        f"{expression}"\n')
V("C18", "first-chunk-only", "F", "R2", R + "_util.py", "        for chunk in iter(lambda: fp.read(128 * file_sha1.block_size), b\"\"):\n            file_sha1.update(chunk)", "        file_sha1.update(fp.read(128 * file_sha1.block_size))")
V("C18", "relationship-uses-name", "F", "R1", RPT, '                f" {report.spdx_id}\\n"\n            )\n\n        for report in reports:', '                f" {report.name}\\n"\n            )\n\n        for report in reports:')
V("C18", "copyright-without-text-wrapper", "F", "R1", RPT, '"FileCopyrightText:" f" <text>{report.copyright}</text>\\n"', '"FileCopyrightText:" f" {report.copyright}\\n"')
V("C18", "no-licenseref-section", "F", "R1", RPT, "            if _LICENSEREF_PATTERN.match(lic):\n                out.write(\"\\n\")", "            if False:\n                out.write(\"\\n\")")
V("C18", "creator-not-required", "F", "R3", R + "cli/spdx.py", "        add_license_concluded\n        and creator_person is None\n        and creator_organization is None", "        add_license_concluded\n        and creator_person is None\n        and creator_organization is None\n        and False")

# ----------------------------------------------------------------- C19
DLP = R + "download.py"
DLC = R + "cli/download.py"
V("C19", "exists-check-after-write", "F", "R1", DLP,
  "    # exists() follows symbolic links: a dangling link is an existing entry as\n    # well, and writing to it would create its target somewhere else.\n    if destination.exists() or destination.is_symlink():\n        raise FileExistsError(\n            errno.EEXIST, os.strerror(errno.EEXIST), str(destination)\n        )\n\n    # LicenseRef- license; don't download anything.",
  "    # LicenseRef- license; don't download anything.")
V("C19", "open-before-download", "F", "R1", DLP,
  "        text = download_license(spdx_identifier)\n        with destination.open(\"w\", encoding=\"utf-8\") as fp:\n            fp.write(header)\n            fp.write(text)",
  "        with destination.open(\"w\", encoding=\"utf-8\") as fp:\n            text = download_license(spdx_identifier)\n            fp.write(header)\n            fp.write(text)")
V("C19", "licenseref-downloads", "F", "R1", DLP, "        else:\n            destination.touch()\n", "        else:\n            destination.write_text(download_license(spdx_identifier))\n")
V("C19", "dest-hack-without-vcs-test", "F", "R3", DLP, '        and root.name == "LICENSES"\n        and isinstance(project.vcs_strategy, VCSStrategyNone)\n', '        and root.name == "LICENSES"\n')
V("C19", "dest-hack-inverted", "F", "R3", DLP, '        and root.name == "LICENSES"\n', '        and root.name != "LICENSES"\n')
V("C19", "licdir-root-ignored", "F", "R3", R + "_util.py", "    if root:\n        licenses_path = Path(root) / \"LICENSES\"\n    elif cwd.name == \"LICENSES\":", "    if cwd.name == \"LICENSES\":")
V("C19", "dest-fstring-name", "S", "", DLP, 'return licenses_path / "".join((spdx_identifier, ".txt"))', 'return licenses_path / f"{spdx_identifier}.txt"')
V("C19", "break-on-failure", "F", "R2", DLC, "        except URLError:\n            _could_not_download(lic)\n            return_code = 1\n", "        except URLError:\n            _could_not_download(lic)\n            return_code = 1\n            break\n")
V("C19", "failure-exit-0", "F", "R2", DLC, "        except FileExistsError as err:\n            _already_exists(err.filename)\n            return_code = 1\n", "        except FileExistsError as err:\n            _already_exists(err.filename)\n")
V("C19", "plus-not-stripped", "F", "R2", DLC, "    licenses = {_strip_plus_from_identifier(lic) for lic in licenses}\n", "    licenses = set(licenses)\n")
V("C19", "exit-0-always", "F", "R2", DLC, "    sys.exit(return_code)", "    sys.exit(0)")
V("C19", "status-ignored", "F", "R1", DLP, "        if response.getcode() == 200:\n            return response.read().decode(\"utf-8\")\n    raise URLError(\"Status code was not 200\")", "        return response.read().decode(\"utf-8\")")
V("C19", "all-takes-unused", "F", "R2", DLC, "        licenses = report.missing_licenses.keys()", "        licenses = report.unused_licenses")
V("C19", "destination-without-txt", "F", "R3", DLP, '    return licenses_path / "".join((spdx_identifier, ".txt"))', '    return licenses_path / spdx_identifier')
V("C19", "second-network-caller", "F", "R1", R + "_util.py", "def cleandoc_nl(text: str) -> str:", "def _ping() -> None:\n    import urllib.request\n    urllib.request.urlopen('https://spdx.org')\n\n\ndef cleandoc_nl(text: str) -> str:")

# ----------------------------------------------------------------- C11
ANP = R + "_annotate.py"
CAP = R + "cli/annotate.py"
V("C11", "touch-again-fallback", "F", "R1", ANP, "            path = _determine_license_suffix_path(path)\n            comment_style = EmptyCommentStyle", "            path = _determine_license_suffix_path(path)\n            path.touch()\n            comment_style = EmptyCommentStyle")
V("C11", "touch-again-cli", "F", "R1", CAP, "            path = Path(new_path)\n", "            path = Path(new_path)\n            path.touch()\n")
V("C11", "write-in-except", "F", "R1", ANP, "        out.write(\"\\n\")\n        result = 1\n    except MissingReuseInfoError:", "        out.write(\"\\n\")\n        result = 1\n        Path(path).write_text(text)\n    except MissingReuseInfoError:")
V("C11", "failure-result-0", "F", "R1", ANP, "        out.write(\"\\n\")\n        result = 1\n    except MissingReuseInfoError:", "        out.write(\"\\n\")\n    except MissingReuseInfoError:")
V("C11", "break-after-failure", "F", "R2", CAP, "            out=sys.stdout,\n        )\n\n    sys.exit(min(result, 1))", "            out=sys.stdout,\n        )\n        if result:\n            break\n\n    sys.exit(min(result, 1))")
V("C11", "exit-result-raw", "F", "R2", CAP, "    sys.exit(min(result, 1))", "    sys.exit(0 if not result else 0)")
V("C11", "line-handling-after-loop", "F", "R3", CAP, "    # Verify line handling and comment styles before proceeding.\n    verify_paths_line_handling(single_line, multi_line, style, paths)\n", "")
V("C11", "mutex-dropped", "F", "R3", CAP, '    "--multi-line",\n    cls=MutexOption,\n    mutually_exclusive=_LINE_MUTEX,\n', '    "--multi-line",\n')
V("C11", "terminator-not-checked", "F", "R4", R + "comment.py", "            if cls.MULTI_LINE.end in text:\n                raise CommentCreateError(\n                    f\"'{line}' contains a premature comment delimiter\"\n                )\n", "")
V("C11", "only-one-exception-handled", "F", "R1", ANP, "    except MissingReuseInfoError:\n        out.write(\n            _(\n                \"Error: Generated comment header for '{path}' is missing\"", "    except KeyError:\n        out.write(\n            _(\n                \"Error: Generated comment header for '{path}' is missing\"")

# ----------------------------------------------------------------- C07
HDP = R + "header.py"
V("C07", "postcondition-removed", "F", "R1", HDP, "        _LOGGER.debug(result)\n        raise MissingReuseInfoError()\n", "        _LOGGER.debug(result)\n")
V("C07", "postcondition-on-rendered-only", "F", "R1", HDP, "    new_reuse_info = extract_reuse_info(result)", "    new_reuse_info = extract_reuse_info(rendered)")
V("C07", "contributors-not-rendered", "F", "R2", HDP, "        contributor_lines=sorted(reuse_info.contributor_lines),\n", "")
V("C07", "template-tag-typo", "F", "R2", R + "templates/default_template.jinja2", "SPDX-FileContributor: {{ contributor_line }}", "SPDX-FileContributors: {{ contributor_line }}")
V("C07", "force-multi-from-single", "F", "R3", CAP, "            force_multi=multi_line,", "            force_multi=single_line,")
V("C07", "replace-not-negated", "F", "R3", CAP, "            replace=not no_replace,", "            replace=no_replace,")
V("C07", "style-dropped-on-new-header", "F", "R3", ANP,
  "            output = add_new_header(\n                text,\n                reuse_info,\n                template=template,\n                template_is_commented=template_is_commented,\n                style=comment_style,",
  "            output = add_new_header(\n                text,\n                reuse_info,\n                template=template,\n                template_is_commented=template_is_commented,")
V("C07", "uncommentable-in-file", "F", "R4", CAP, "        if binary or is_uncommentable(path) or force_dot_license:", "        if binary or force_dot_license:")
V("C07", "detected-style-beats-forced", "F", "R4", ANP,
  "    comment_style: Optional[Type[CommentStyle]] = NAME_STYLE_MAP.get(\n        cast(str, style)\n    )\n    if comment_style is None:\n        comment_style = get_comment_style(path)",
  "    comment_style: Optional[Type[CommentStyle]] = get_comment_style(path)\n    if comment_style is None:\n        comment_style = NAME_STYLE_MAP.get(cast(str, style))")
V("C07", "style-without-forms", "F", "R5", R + "comment.py", '    SHORTHAND = "f90"\n\n    SINGLE_LINE = "!"', '    SHORTHAND = "f90"\n\n    SINGLE_LINE = ""')
V("C07", "merge-flag-lost", "F", "R3", HDP,
  "        force_multi=force_multi,\n        merge_copyrights=merge_copyrights,\n    )\n\n    return place_header(new_header, before, after, bool(header))",
  "        force_multi=force_multi,\n    )\n\n    return place_header(new_header, before, after, bool(header))")
V("C07", "single-preferred-even-if-forced", "F", "R3", R + "comment.py", "        if force_multi or not cls.can_handle_single():", "        if not cls.can_handle_single():")

# ----------------------------------------------------------------- C08
V("C08", "no-separator-after-new-header", "F", "R1", HDP, '        if not has_existing_header and not after.startswith("\\n"):\n            separator = "\\n"', '        if not has_existing_header and not after.startswith("\\n"):\n            separator = ""')
V("C08", "before-not-rstripped", "F", "R1", HDP, '        new_text = f"{before.rstrip()}\\n\\n{new_text}"', '        new_text = f"{before}\\n\\n{new_text}"')
V("C08", "after-dropped-when-existing", "F", "R1", HDP, "        new_text = f\"{new_text}{separator}{after}\"\n    return new_text", "        if not has_existing_header:\n            new_text = f\"{new_text}{separator}{after}\"\n    return new_text")
V("C08", "write-lf-always", "F", "R2", ANP, 'with open(path, "w", encoding="utf-8", newline=line_ending) as fp:', 'with open(path, "w", encoding="utf-8", newline="\\n") as fp:')
V("C08", "detect-after-normalise", "F", "R2", ANP,
  "    line_ending = detect_line_endings(text)\n    # Normalise line endings.\n    text = text.replace(line_ending, \"\\n\")",
  "    text = text.replace(\"\\r\\n\", \"\\n\")\n    line_ending = detect_line_endings(text)\n    # Normalise line endings.\n    text = text.replace(line_ending, \"\\n\")")
V("C08", "universal-newlines-read", "F", "R2", ANP, 'with open(path, "r", encoding="utf-8", newline="") as fp:', 'with open(path, "r", encoding="utf-8") as fp:')
_DET = '    crlf = text.count("\\r\\n")\n    counts = {\n        "\\r\\n": crlf,\n        "\\r": text.count("\\r") - crlf,\n        "\\n": text.count("\\n") - crlf,\n    }\n    line_ending = max(counts, key=lambda item: counts[item])\n    if counts[line_ending] == 0:\n        return os.linesep\n    return line_ending\n'
V("C08", "detect-by-presence", "F", "R2", EXP, _DET, '    line_endings = ["\\r\\n", "\\r", "\\n"]\n    for line_ending in line_endings:\n        if line_ending in text:\n            return line_ending\n    return os.linesep\n')
V("C08", "detect-by-presence-cr-first", "F", "R2", EXP, _DET, '    for line_ending in ("\\r", "\\r\\n", "\\n"):\n        if line_ending in text:\n            return line_ending\n    return os.linesep\n')
V("C08", "crlf-not-subtracted-from-cr", "F", "R2", EXP, '        "\\r": text.count("\\r") - crlf,\n', '        "\\r": text.count("\\r"),\n')
V("C08", "crlf-count-inline", "S", "", EXP, '        "\\n": text.count("\\n") - crlf,\n', '        "\\n": text.count("\\n") - text.count("\\r\\n"),\n')
V("C08", "count-table-other-order", "S", "", EXP, '        "\\r\\n": crlf,\n        "\\r": text.count("\\r") - crlf,\n        "\\n": text.count("\\n") - crlf,\n', '        "\\n": text.count("\\n") - crlf,\n        "\\r\\n": crlf,\n        "\\r": text.count("\\r") - crlf,\n')
for _p in ("C10",):
    V(_p, "detect-by-presence", "F", "C08.R2", EXP, _DET, '    line_endings = ["\\r\\n", "\\r", "\\n"]\n    for line_ending in line_endings:\n        if line_ending in text:\n            return line_ending\n    return os.linesep\n')
V("C08", "partition-off-by-one", "F", "R4", HDP, "text[index + len(comment) + 1 :]", "text[index + len(comment) :]")
V("C08", "bom-not-written-back", "F", "R5", ANP, "            fp.write(bom + output)", "            fp.write(output)")
V("C08", "bom-handling-removed", "F", "R5", ANP, '    bom = ""\n    if text.startswith("\\ufeff"):\n        bom = "\\ufeff"\n        text = text[1:]\n', '    bom = ""\n')
V("C08", "shebang-after-create", "F", "R3", HDP,
  "    shebang = \"\"\n\n    if style.SHEBANGS:\n        for shebang_prefix in style.SHEBANGS:\n            if text.startswith(shebang_prefix):\n                shebang, text = _extract_shebang(shebang_prefix, text)\n                break\n\n    header = create_header(\n        reuse_info,\n        None,\n        template=template,\n        template_is_commented=template_is_commented,\n        style=style,\n        force_multi=force_multi,\n        merge_copyrights=merge_copyrights,\n    )\n",
  "    shebang = \"\"\n\n    header = create_header(\n        reuse_info,\n        None,\n        template=template,\n        template_is_commented=template_is_commented,\n        style=style,\n        force_multi=force_multi,\n        merge_copyrights=merge_copyrights,\n    )\n\n    if style.SHEBANGS:\n        for shebang_prefix in style.SHEBANGS:\n            if text.startswith(shebang_prefix):\n                shebang, text = _extract_shebang(shebang_prefix, text)\n                break\n")

# ----------------------------------------------------------------- C09
INI = R + "__init__.py"
V("C09", "existing-info-not-unioned", "F", "R1", HDP, "        reuse_info = existing_spdx | reuse_info\n", "")
V("C09", "existing-copyrights-dropped-on-merge", "F", "R1", HDP,
  "            spdx_copyrights = merge_copyright_lines(\n                reuse_info.copyright_lines.union(existing_spdx.copyright_lines),\n            )",
  "            spdx_copyrights = merge_copyright_lines(\n                reuse_info.copyright_lines,\n            )")
V("C09", "bad-existing-header-ignored", "F", "R1", HDP,
  "            raise CommentCreateError(\n                \"existing header contains an erroneous SPDX expression\"\n            ) from err",
  "            existing_spdx = ReuseInfo()")
V("C09", "union-only-copyright", "F", "R2", INI, "            if isinstance(attr_val, set) and (other_val := getattr(value, key)):", "            if key == \"copyright_lines\" and (other_val := getattr(value, key)):")
V("C09", "or-returns-self", "F", "R2", INI, "        return self.union(value)\n", "        return self\n")
V("C09", "xor-as-or", "F", "R2", INI, "return bool(self.spdx_expressions) ^ bool(self.copyright_lines)", "return bool(self.spdx_expressions) or bool(self.copyright_lines)")
V("C09", "skip-existing-after-write", "F", "R3", ANP, "    if skip_existing and contains_reuse_info(text):", "    if False and skip_existing and contains_reuse_info(text):")
V("C09", "copy-unknown-field", "F", "R2", PRJ, "closest = closest.copy(copyright_lines=set())", "closest = closest.copy(copyright=set())")

# ----------------------------------------------------------------- C15
V("C15", "json-format-writes-cache", "F", "R1", LNT, "    return json.dumps(\n        report.to_dict_lint(),", "    Path('.reuse-lint-cache.json').write_text('x')\n    return json.dumps(\n        report.to_dict_lint(),")
V("C15", "lint-touches-licenses-dir", "F", "R1", PRJ, "        license_files: dict[str, Path] = {}\n", "        license_files: dict[str, Path] = {}\n        (self.root / 'LICENSES').mkdir(exist_ok=True)\n")
V("C15", "git-clean", "F", "R3", R + "vcs.py", '        command = [str(cls.EXE), "status"]', '        command = [str(cls.EXE), "clean", "-fd"]')
V("C15", "extract-writes-log", "F", "R1", EXP, "    path = Path(path)\n    with path.open(\"rb\") as fp:", "    path = Path(path)\n    with open('/tmp/reuse.log', 'a') as log:\n        log.write(str(path))\n    with path.open(\"rb\") as fp:")
V("C15", "annotate-backup-file", "F", "R1", ANP, "        with open(path, \"w\", encoding=\"utf-8\", newline=line_ending) as fp:", "        Path(str(path) + '.orig').write_text(text)\n        with open(path, \"w\", encoding=\"utf-8\", newline=line_ending) as fp:")
V("C15", "spdx-second-output", "F", "R1", R + "cli/spdx.py", "    with contextlib.ExitStack() as stack:", "    open('bom.cache', 'w').close()\n    with contextlib.ExitStack() as stack:")
V("C15", "extra-read-only-open", "S", "", RPT, "        reports = sorted(self.file_reports, key=lambda x: x.name)\n", "        reports = sorted(self.file_reports, key=lambda x: x.name)\n        with open(__file__, 'rb') as _self:\n            _self.read(1)\n")
V("C15", "dynamic-mode-open", "F", "R1", RPT, "        reports = sorted(self.file_reports, key=lambda x: x.name)\n", "        reports = sorted(self.file_reports, key=lambda x: x.name)\n        mode = 'w' if creator_person else 'r'\n        open('x.tmp', mode).close()\n")

# ----------------------------------------------------------------- C16
V("C16", "container-catches-oserror-only", "F", "R3", RPT, "        except Exception as exc:\n            return _MultiprocessingResult(file_, None, exc)", "        except OSError as exc:\n            return _MultiprocessingResult(file_, None, exc)")
V("C16", "toml-unicode-handler-dropped", "F", "R4", GLP, "        except UnicodeDecodeError as error:\n            raise GlobalLicensingParseError(\n                str(error), source=str(path)\n            ) from error\n\n    def find_annotations_item", "        except KeyError as error:\n            raise GlobalLicensingParseError(\n                str(error), source=str(path)\n            ) from error\n\n    def find_annotations_item")
V("C16", "str-to-set-raises-valueerror", "F", "R1", GLP, "    if value is None:\n        return cast(set[str], set())\n    if isinstance(value, str):", "    if value is None:\n        return cast(set[str], set())\n    if value == \"\":\n        raise ValueError(\"empty\")\n    if isinstance(value, str):")
V("C16", "annotations-check-removed", "F", "R2", GLP, "        if not isinstance(annotation_dicts, list) or not all(\n            isinstance(annotation, dict) for annotation in annotation_dicts\n        ):", "        if False:")
V("C16", "raise-without-source", "F", "R4", GLP, "                _(\"{attr_name} must not be empty.\").format(\n                    attr_name=repr(attr_name),\n                ),\n                source=source,\n            )", "                _(\"{attr_name} must not be empty.\").format(\n                    attr_name=repr(attr_name),\n                ),\n            )")
V("C16", "expression-error-not-contained", "F", "R3", EXP, "        except (ExpressionError, ParseError):\n            _LOGGER.error(\n                _(\n                    \"'{path}' holds", "        except (KeyError,):\n            _LOGGER.error(\n                _(\n                    \"'{path}' holds")
V("C16", "conflict-error-unmapped", "F", "R1", R + "cli/common.py", "        except (GlobalLicensingConflictError, OSError) as error:", "        except OSError as error:")
V("C16", "dep5-valueerror-unhandled", "F", "R1", GLP, "        except (DebianError, ValueError) as error:", "        except DebianError as error:")
V("C16", "toml-syntax-unhandled", "F", "R1", GLP, "        except tomlkit.exceptions.TOMLKitError as error:", "        except tomlkit.exceptions.EmptyKeyError as error:")

# ----------------------------------------------------------------- C14
V("C14", "end-pattern-unsorted-again", "F", "R0", EXP, "        sorted({\n            r\"(?:{})*\".format(item)", "        list({\n            r\"(?:{})*\".format(item)")
V("C14", "tomls-in-walk-order", "F", "R3", GLP, "        found.sort(key=lambda toml: toml.directory.parts)\n", "")
V("C14", "first-unused-license-decides", "F", "R1", RPT,
  "        self._is_compliant = not any(", "        if self.unused_licenses and next(iter(self.unused_licenses)).startswith('LicenseRef-'):\n            return True\n        self._is_compliant = not any(")
V("C14", "imap-unordered", "F", "R2", RPT, "            results: Iterable[_MultiprocessingResult] = pool.map(\n                container, files\n            )", "            results: Iterable[_MultiprocessingResult] = list(pool.imap_unordered(\n                container, files\n            ))")
V("C14", "first-toml-wins", "F", "R1", PRJ, "        tomls = [ReuseTOML.from_file(item.path) for item in found]\n", "        tomls = [ReuseTOML.from_file(item.path) for item in found]\n        if found[0].path.name != 'REUSE.toml':\n            tomls = tomls[:1]\n")
# the ORDER of entries is outside C14 ('identical up to ordering of entries'): an unsorted document is not a violation
V("C14", "bom-sections-unsorted", "S", "", RPT, "reports = sorted(self.file_reports, key=lambda x: x.name)", "reports = list(self.file_reports)")
V("C14", "concluded-without-simplify", "F", "R1", RPT, "                .simplify()\n                .render()", "                .render()")
V("C14", "regex-from-set", "F", "R1", R + "vcs.py", "        return path in self._all_ignored_files\n\n    def is_submodule(self, path: StrPath) -> bool:\n        return any(",
  "        import re as _re\n        if _re.match('|'.join(str(p) for p in self._all_ignored_files), str(path)):\n            return True\n        return path in self._all_ignored_files\n\n    def is_submodule(self, path: StrPath) -> bool:\n        return any(")
V("C14", "sorted-join-ok", "S", "", RPT, "        report.copyright = \"\\n\".join(\n            sorted(", "        report.copyright = \"\\n\".join(\n            sorted(")

# ----------------------------------------------------------------- C10
V("C10", "merge-in-set-order-again", "F", "R1", CPP, "    for line in sorted(copyright_lines):", "    for line in copyright_lines:")
V("C10", "render-unsorted-contributors", "F", "R1", HDP, "        contributor_lines=sorted(reuse_info.contributor_lines),", "        contributor_lines=list(reuse_info.contributor_lines),")
V("C10", "new-ambiguous-style", "F", "R2", R + "comment.py", '    SINGLE_LINE = "%"\n    INDENT_AFTER_SINGLE = " "\n    SHEBANGS = ["% !TEX", "%!TEX", "#!"]', '    SINGLE_LINE = "%"\n    INDENT_AFTER_SINGLE = " "\n    MULTI_LINE = MultiLineSegments("%{", "", "%}")\n    SHEBANGS = ["% !TEX", "%!TEX", "#!"]')
V("C10", "blank-header-lines-unmarked", "F", "R3", R + "comment.py", "            line_result = cls.SINGLE_LINE\n            if line:\n                line_result += cls.INDENT_AFTER_SINGLE + line\n            result.append(line_result)\n        return \"\\n\".join(result)\n\n    @classmethod\n    def _create_comment_multi",
  "            line_result = \"\"\n            if line:\n                line_result = cls.SINGLE_LINE + cls.INDENT_AFTER_SINGLE + line\n            result.append(line_result)\n        return \"\\n\".join(result)\n\n    @classmethod\n    def _create_comment_multi")
V("C10", "separator-after-existing-header", "F", "R5", HDP, '        if not has_existing_header and not after.startswith("\\n"):', '        if not after.startswith("\\n"):')
V("C10", "lisp-regexp-needs-two", "F", "R3", R + "comment.py", 'SINGLE_LINE_REGEXP = re.compile(r"^;+\\s*")', 'SINGLE_LINE_REGEXP = re.compile(r"^;;;;+\\s*")')

# ----------------------------------------------------------------- benign refactors (must stay silent)
def S(prop, vid, file, name, new):
    """Rename a LOCAL variable / parameter (word boundaries; not attributes `.name`, not keyword arguments `name=`)."""
    VARIANTS.append({"prop": prop, "id": f"{prop}:benign-{vid}", "expect": "S", "rule": "", "edits": [],
                     "resub": (file, r"(?<![.\w])" + name + r"\b(?!\s*=[^=])|(?<![.\w])" + name + r"\b(?=\s*=[^=][^,)]*$)", new)})


def S2(prop, vid, file, pattern, new):
    VARIANTS.append({"prop": prop, "id": f"{prop}:benign-{vid}", "expect": "S", "rule": "", "edits": [], "resub": (file, pattern, new)})


for _p in ("C01", "C13", "C06", "C18", "C14"):
    S2(_p, "rename-file_report", RPT, r"\bfile_report\b", "frep")
S2("C13", "rename-lic-loopvar", LNT, r"\blic\b", "licence")
S2("C02", "rename-read_limit", EXP, r"\bread_limit\b", "limit")
S2("C02", "log-message", EXP, "seems to contain an SPDX Snippet", "looks like it has an SPDX snippet")
S2("C04", "rename-file_result", PRJ, r"\bfile_result\b", "own_info")
S2("C03", "inline-name", R + "covered_files.py", r"pattern\.fullmatch\(name\)", "pattern.fullmatch(path.name)")
for _p in ("C08", "C11"):
    S2(_p, "rename-line_ending", ANP, r"\bline_ending\b", "eol")
for _p in ("C15", "C19"):
    S2(_p, "rename-destination-local", R + "download.py", r"(?<![.\w])destination\b(?!=)", "dest")
for _p in ("C15", "C07", "C11"):
    S2(_p, "rename-comment_style", ANP, r"\bcomment_style\b", "cstyle")
S2("C09", "rename-existing_spdx", R + "header.py", r"\bexisting_spdx\b", "existing")
S2("C16", "rename-annotation_dicts", GLP, r"\bannotation_dicts\b", "raw_annotations")
S2("C05", "rename-blocks", GLP, r"\bblocks\b", "pieces")
S2("C17", "rename-paragraph_result", R + "convert_dep5.py", r"\bparagraph_result\b", "entry")
for _p in ("C20", "C10", "C09"):
    S2(_p, "rename-copyright_in", CPP, r"\bcopyright_in\b", "parsed")
S2("C12", "rename-ignore_start", EXP, r"\bignore_start\b", "start_idx")
for _p in ("C14", "C04"):
    S2(_p, "rename-found-local", GLP, r"(?<![.\w])found\b", "relevant")
S2("C18", "rename-out", RPT, r"\bout\b(?!=)", "buf")
S2("C01", "rename-project_report", RPT, r"\bproject_report\b", "prep")
V("C17", "tables-reversed", "F", "R2", R + "convert_dep5.py", "        annotations.append(paragraph_result)\n    return annotations\n", "        annotations.append(paragraph_result)\n    annotations.reverse()\n    return annotations\n")
V("C17", "tables-sorted-in-document", "F", "R2", R + "convert_dep5.py", "    result[\"annotations\"] = annotations\n", "    annotations = sorted(annotations, key=lambda a: str(a[\"path\"]))\n    result[\"annotations\"] = annotations\n")
V("C17", "tables-inserted-front", "F", "R2", R + "convert_dep5.py", "        annotations.append(paragraph_result)\n", "        annotations.insert(0, paragraph_result)\n")
S2("C17", "rename-annotations-acc", R + "convert_dep5.py", r"(?<![\"\w])annotations\b(?![\"(])", "tables")
V("C14", "module-cache-in-extract", "F", "R6", EXP, "def extract_reuse_info(text: str) -> ReuseInfo:\n", "_SEEN: dict = {}\n\n\ndef extract_reuse_info(text: str) -> ReuseInfo:\n    _SEEN[text[:20]] = True\n")
V("C14", "global-results-consumed", "F", "R6", PRJ, "        result.extend(global_results[PrecedenceType.OVERRIDE])\n", "        result.extend(global_results[PrecedenceType.OVERRIDE])\n        self.license_map.setdefault(str(path), {})\n")
VARIANTS.append({"prop": "C14", "id": "C14:benign2-accumulator-helper", "expect": "S", "rule": "", "edits": [
    {"file": PRJ, "old": "        if file_result.contains_info():\n            result.append(file_result)\n",
     "new": "        _add_if_info(result, file_result)\n"},
    {"file": PRJ, "old": "@attrs.define\nclass Project:\n", "new": "def _add_if_info(acc, info):\n    if info.contains_info():\n        acc.append(info)\n\n\n@attrs.define\nclass Project:\n"}]})
V2("C20", "undated-line-bypasses-merge", "F", "R3", [(CPP, "            if match is not None:\n                copyright_in.append(", "            if match is not None and match.groupdict()[\"year\"] is None:\n                early.add(line)\n                break\n            if match is not None:\n                copyright_in.append("),
   (CPP, "    copyright_in = []\n", "    copyright_in = []\n    early: set[str] = set()\n"), (CPP, "    return copyright_out\n", "    return copyright_out | early\n")])
V("C20", "undated-line-dropped", "F", "R3", CPP, "            if match is not None:\n                copyright_in.append(", "            if match is not None and match.groupdict()[\"year\"] is None:\n                break\n            if match is not None:\n                copyright_in.append(")
S2("C19", "rename-root-local", DLP, r"(?<![.\w])root\b(?!=)", "base")
S2("C19", "rename-return_code", R + "cli/download.py", r"\breturn_code\b", "rc")
S2("C11", "rename-result", CAP, r"(?<![.\w])result\b", "failures")
S2("C06", "rename-identifiers", RPT, r"\bidentifiers\b", "ids")
S2("C04", "rename-toml_items", GLP, r"\btoml_items\b", "pairs")
S2("C03", "rename-the_file", R + "covered_files.py", r"\bthe_file\b", "candidate")
S2("C08", "rename-new_text", HDP, r"\bnew_text\b", "assembled")
S2("C07", "rename-rendered", HDP, r"\brendered\b", "body")
S2("C13", "rename-number_of_files", RPT, r"\bnumber_of_files\b", "total")
V("C02", "lone-cr-not-folded-again", "F", "R5", EXP, 'return result.replace("\\r\\n", "\\n").replace("\\r", "\\n")', 'return result.replace("\\r\\n", "\\n")')
V("C07", "special-ending-eats-later", "F", "R7", EXP, "                        r\"\\]\\s*::\",\n", "                        r\"\\]\\s*::\",\n                        r\"-later\",\n")
V("C02", "special-ending-eats-later", "F", "R8", EXP, "                        r\"\\]\\s*::\",\n", "                        r\"\\]\\s*::\",\n                        r\"-later\",\n")
V("C07", "style-end-is-id-suffix", "F", "R7", R + "comment.py", '    MULTI_LINE = MultiLineSegments("{#", "", "#}")', '    MULTI_LINE = MultiLineSegments("{#", "", "-only")')
V("C07", "tex-marker-in-copyright-prefix", "F", "R7", R + "comment.py", '    SHORTHAND = "semicolon"\n\n    SINGLE_LINE = ";"', '    SHORTHAND = "semicolon"\n\n    SINGLE_LINE = "Copyright"')

# ----------------------------------------------------------------- benign structural refactors (must stay silent)
def B(prop, vid, file, old, new):
    VARIANTS.append({"prop": prop, "id": f"{prop}:benign2-{vid}", "expect": "S", "rule": "", "edits": [{"file": file, "old": old, "new": new}]})


VARIANTS.append({"prop": "C01", "id": "C01:benign2-verdict-list", "expect": "S", "rule": "", "edits": [
    {"file": RPT, "old": "        self._is_compliant = not any(\n            (\n                self.missing_licenses,",
     "new": "        self._is_compliant = not any(\n            [\n                self.missing_licenses,"},
    {"file": RPT, "old": "                self.read_errors,\n            )\n        )\n\n        return self._is_compliant", "new": "                self.read_errors,\n            ]\n        )\n\n        return self._is_compliant"}]})
B("C13", "len-guard", LNT, "        if report.bad_licenses:\n", "        if len(report.bad_licenses) > 0:\n")
B("C03", "any-instead-of-loop", R + "covered_files.py",
  "        for pattern in _IGNORE_DIR_PATTERNS:\n            if pattern.fullmatch(name):\n                return True\n",
  "        if any(pattern.fullmatch(name) for pattern in _IGNORE_DIR_PATTERNS):\n            return True\n")
B("C04", "plus-equals-instead-of-extend", PRJ, "        result.extend(global_results[PrecedenceType.AGGREGATE])\n", "        result += global_results[PrecedenceType.AGGREGATE]\n")
B("C12", "find-instead-of-in", EXP, "    if REUSE_IGNORE_START in text:\n        ignore_start = text.index(REUSE_IGNORE_START)", "    if text.find(REUSE_IGNORE_START) != -1:\n        ignore_start = text.index(REUSE_IGNORE_START)")
B("C01", "exit-via-local", R + "cli/lint.py", "    sys.exit(0 if report.is_compliant else 1)", "    exit_code = 0 if report.is_compliant else 1\n    sys.exit(exit_code)")
B("C04", "slice-reverse", GLP, "        for item in reversed(self.annotations):", "        for item in self.annotations[::-1]:")
B("C20", "any-match", CPP, "    for pattern in _COPYRIGHT_PATTERNS:\n        # Only a statement that begins with a copyright tag is a complete\n        # notice. A holder that merely contains the word (e.g. 'The Copyright\n        # Holders') still needs its prefix and year.\n        match = pattern.match(statement)\n        if match is not None:\n            return statement\n",
  "    if any(pattern.match(statement) is not None for pattern in _COPYRIGHT_PATTERNS):\n        return statement\n")
B("C06", "ids-as-literal", RPT,
  "                    identifiers = {identifier}\n                    if (\n                        plus_identifier := _strip_plus_from_identifier(\n                            identifier\n                        )\n                    ) != identifier:\n                        identifiers.add(plus_identifier)\n",
  "                    identifiers = {identifier, _strip_plus_from_identifier(identifier)}\n")
B("C19", "branches-swapped", R + "download.py",
  "    if _LICENSEREF_PATTERN.match(spdx_identifier):\n        if source:\n            source = Path(source)\n            if source.is_dir():\n                source = source / f\"{spdx_identifier}.txt\"\n            if not source.exists():\n                raise FileNotFoundError(\n                    errno.ENOENT, os.strerror(errno.ENOENT), str(source)\n                )\n            shutil.copyfile(source, destination)\n        else:\n            destination.touch()\n    else:\n        text = download_license(spdx_identifier)\n        with destination.open(\"w\", encoding=\"utf-8\") as fp:\n            fp.write(header)\n            fp.write(text)",
  "    if not _LICENSEREF_PATTERN.match(spdx_identifier):\n        text = download_license(spdx_identifier)\n        with destination.open(\"w\", encoding=\"utf-8\") as fp:\n            fp.write(header)\n            fp.write(text)\n    elif source:\n        source = Path(source)\n        if source.is_dir():\n            source = source / f\"{spdx_identifier}.txt\"\n        if not source.exists():\n            raise FileNotFoundError(\n                errno.ENOENT, os.strerror(errno.ENOENT), str(source)\n            )\n        shutil.copyfile(source, destination)\n    else:\n        destination.touch()")
B("C11", "early-continue-style", ANP, "    if comment_style is None:\n        if skip_unrecognised:", "    if comment_style is None:\n        if skip_unrecognised is True or skip_unrecognised:")
B("C08", "separator-ifexp", HDP,
  "        if not has_existing_header and not after.startswith(\"\\n\"):\n            separator = \"\\n\"\n        else:\n            separator = \"\"\n",
  "        separator = \"\\n\" if (not has_existing_header and not after.startswith(\"\\n\")) else \"\"\n")
B("C09", "union-operator", HDP, "            spdx_copyrights = reuse_info.copyright_lines.union(\n                existing_spdx.copyright_lines\n            )", "            spdx_copyrights = reuse_info.copyright_lines | existing_spdx.copyright_lines")
B("C18", "fstring-split", RPT, '            out.write(f"SPDXID: {report.spdx_id}\\n")\n', '            out.write("SPDXID: " + f"{report.spdx_id}\\n")\n')
B("C16", "isinstance-order", GLP, "        if not isinstance(annotation_dicts, list) or not all(", "        if (not isinstance(annotation_dicts, list)) or not all(")
VARIANTS.append({"prop": "C15", "id": "C15:benign2-helper-for-write", "expect": "S", "rule": "", "edits": [
    {"file": ANP, "old": "        with open(path, \"w\", encoding=\"utf-8\", newline=line_ending) as fp:\n            fp.write(bom + output)\n",
     "new": "        _write_back(path, bom + output, line_ending)\n"},
    {"file": ANP, "old": "def add_header_to_file(\n",
     "new": "def _write_back(target, data, eol):\n    with open(target, \"w\", encoding=\"utf-8\", newline=eol) as fp:\n        fp.write(data)\n\n\ndef add_header_to_file(\n"}]})
VARIANTS.append({"prop": "C15", "id": "C15:helper-for-write-other-target", "expect": "F", "rule": "R1", "edits": [
    {"file": ANP, "old": "        with open(path, \"w\", encoding=\"utf-8\", newline=line_ending) as fp:\n            fp.write(bom + output)\n",
     "new": "        _write_back(path, bom + output, line_ending)\n        _write_back(str(path) + \".orig\", text, line_ending)\n"},
    {"file": ANP, "old": "def add_header_to_file(\n",
     "new": "def _write_back(target, data, eol):\n    with open(target, \"w\", encoding=\"utf-8\", newline=eol) as fp:\n        fp.write(data)\n\n\ndef add_header_to_file(\n"}]})
for _p in ("C08", "C10"):
    B(_p, "rest-local-in-finder", HDP, "            comment = style.comment_at_first_character(text[index:])\n", "            rest = text[index:]\n            comment = style.comment_at_first_character(rest)\n")
    V(_p, "finder-window-bounded", "F", "R4", HDP, "            comment = style.comment_at_first_character(text[index:])\n", "            comment = style.comment_at_first_character(text[index : index + 4096])\n")
B("C18", "extracted-text-local", RPT, '                    out.write(f"ExtractedText: <text>{fp.read()}</text>\\n")\n', '                    text = fp.read()\n                    out.write(f"ExtractedText: <text>{text}</text>\\n")\n')
V("C17", "unlink-in-finally", "F", "R1", R + "cli/convert_dep5.py", '    (project.root / "REUSE.toml").write_text(text, encoding="utf-8")\n    (project.root / ".reuse/dep5").unlink()\n', '    try:\n        (project.root / "REUSE.toml").write_text(text, encoding="utf-8")\n    finally:\n        (project.root / ".reuse/dep5").unlink()\n')
V("C16", "decode-surrogatepass", "F", "R5", EXP, 'errors="replace"', 'errors="surrogatepass"')
B("C16", "decode-ignore", EXP, 'errors="replace"', 'errors="backslashreplace"')
V("C15", "ignored-set-rooted", "F", "R6", R + "vcs.py", "        return {Path(file_) for file_ in all_files if file_}\n", "        return {self.root / file_ for file_ in all_files if file_}\n")
V("C03", "query-not-relative", "F", "R6", R + "vcs.py", "        path = relative_from_root(path, self.root)\n        return path not in self._all_tracked_files\n", "        path = self.root / path\n        return path not in self._all_tracked_files\n")
V("C14", "glob-root-unescaped", "F", "R7", PRJ, 'directory = str(Path(glob.escape(str(self.root))) / "LICENSES/**")', 'directory = str(self.root / "LICENSES/**")')
B("C14", "glob-escape-os-join", PRJ, 'directory = str(Path(glob.escape(str(self.root))) / "LICENSES/**")', 'directory = os.path.join(glob.escape(str(self.root)), "LICENSES", "**")')
B("C06", "glob-escape-os-join", PRJ, 'directory = str(Path(glob.escape(str(self.root))) / "LICENSES/**")', 'directory = os.path.join(glob.escape(str(self.root)), "LICENSES", "**")')
# ----------------------------------------------------------------- benign feature additions (must stay silent)
CMT = R + "comment.py"
for _p in ("C02", "C07", "C10", "C11", "C14", "C08"):
    VARIANTS.append({"prop": _p, "id": f"{_p}:benign3-new-comment-style", "expect": "S", "rule": "", "edits": [
        {"file": CMT, "old": "class CppCommentStyle(CommentStyle):\n", "new": "class ZigCommentStyle(CommentStyle):\n    \"\"\"Zig comment style.\"\"\"\n\n    SHORTHAND = \"zig\"\n\n    SINGLE_LINE = \"//\"\n    INDENT_AFTER_SINGLE = \" \"\n\n\nclass CppCommentStyle(CommentStyle):\n"},
        {"file": CMT, "old": "    \".cson\": PythonCommentStyle,\n", "new": "    \".cson\": PythonCommentStyle,\n    \".zig\": ZigCommentStyle,\n"}]})
for _p in ("C01", "C13", "C15", "C16"):
    VARIANTS.append({"prop": _p, "id": f"{_p}:benign3-extra-log-lines", "expect": "S", "rule": "", "edits": [
        {"file": R + "cli/lint.py", "old": "    report = ProjectReport.generate(", "new": "    import logging\n\n    logging.getLogger(__name__).debug(\"generating the project report\")\n    report = ProjectReport.generate("}]})
for _p in ("C03", "C04", "C14"):
    VARIANTS.append({"prop": _p, "id": f"{_p}:benign3-docstring-and-debug", "expect": "S", "rule": "", "edits": [
        {"file": R + "covered_files.py", "old": "    if path.is_symlink():\n", "new": "    # symlinks are never covered files\n    if path.is_symlink():\n"}]})
# ----------------------------------------------------------------- benign helper extraction (K9 substitutes the helper back)
_WB_OLD = "        with open(path, \"w\", encoding=\"utf-8\", newline=line_ending) as fp:\n            fp.write(bom + output)\n"
_WB_NEW = "        _write_back(path, bom + output, line_ending)\n"
_WB_DEF_OLD = "def add_header_to_file(\n"
_WB_DEF_NEW = "def _write_back(target, data, eol):\n    with open(target, \"w\", encoding=\"utf-8\", newline=eol) as fp:\n        fp.write(data)\n\n\ndef add_header_to_file(\n"
for _p in ("C08", "C11", "C07", "C10", "C16"):
    VARIANTS.append({"prop": _p, "id": f"{_p}:benign4-helper-write-back", "expect": "S", "rule": "", "edits": [
        {"file": ANP, "old": _WB_OLD, "new": _WB_NEW}, {"file": ANP, "old": _WB_DEF_OLD, "new": _WB_DEF_NEW}]})
for _p in ("C19", "C15"):
    VARIANTS.append({"prop": _p, "id": f"{_p}:benign4-helper-refuse-existing", "expect": "S", "rule": "", "edits": [
        {"file": DLP, "old": "    # exists() follows symbolic links: a dangling link is an existing entry as\n    # well, and writing to it would create its target somewhere else.\n    if destination.exists() or destination.is_symlink():\n        raise FileExistsError(\n            errno.EEXIST, os.strerror(errno.EEXIST), str(destination)\n        )\n",
         "new": "    _refuse_existing(destination)\n"},
        {"file": DLP, "old": "def put_license_in_file(\n", "new": "def _refuse_existing(target):\n    if target.exists() or target.is_symlink():\n        raise FileExistsError(errno.EEXIST, os.strerror(errno.EEXIST), str(target))\n\n\ndef put_license_in_file(\n"}]})
for _p in ("C20", "C09"):
    VARIANTS.append({"prop": _p, "id": f"{_p}:benign4-helper-year-range", "expect": "S", "rule": "", "edits": [
        {"file": CPP, "old": "        year: Optional[str] = None\n        if years:\n            if min(years) == max(years):\n                year = min(years)\n            else:\n                year = f\"{min(years)} - {max(years)}\"\n",
         "new": "        year = _year_range(years)\n"},
        {"file": CPP, "old": "def merge_copyright_lines(", "new": "def _year_range(all_years):\n    span = None\n    if all_years:\n        if min(all_years) == max(all_years):\n            span = min(all_years)\n        else:\n            span = f\"{min(all_years)} - {max(all_years)}\"\n    return span\n\n\ndef merge_copyright_lines("}]})
for _p in ("C04", "C14"):
    VARIANTS.append({"prop": _p, "id": f"{_p}:benign4-helper-closest", "expect": "S", "rule": "", "edits": [
        {"file": PRJ, "old": "            for closest in global_results[PrecedenceType.CLOSEST]:\n                if file_result.copyright_lines:\n                    closest = closest.copy(copyright_lines=set())\n                else:\n                    closest = closest.copy(spdx_expressions=set())\n                if closest.contains_copyright_or_licensing():\n                    result.append(closest)\n",
         "new": "            _add_missing_half(result, file_result, global_results[PrecedenceType.CLOSEST])\n"},
        {"file": PRJ, "old": "@attrs.define\nclass Project:\n", "new": "def _add_missing_half(acc, own, candidates):\n    for closest in candidates:\n        if own.copyright_lines:\n            closest = closest.copy(copyright_lines=set())\n        else:\n            closest = closest.copy(spdx_expressions=set())\n        if closest.contains_copyright_or_licensing():\n            acc.append(closest)\n\n\n@attrs.define\nclass Project:\n"}]})
# ----------------------------------------------------------------- benign multi-hunk refactors kept as patches
import os as _os
_BP = _os.path.join(_os.path.dirname(_os.path.abspath(__file__)), "benign_patches")
for _p in ("C19", "C15", "C11"):
    VARIANTS.append({"prop": _p, "id": f"{_p}:benign5-download-one-helper", "expect": "S", "rule": "", "edits": [],
                     "patchfile": _os.path.join(_BP, "c19-download-one-helper.diff")})
V("C16", "unhashable-toml-values", "F", "R1", GLP, "        try:\n            return set(value)\n        except TypeError:\n", "        try:\n            return set(value)\n        except ValueError:\n")
V("C16", "gitmodules-valueless-key", "F", "R1", R + "vcs.py", '            Path(entry.split("\\n", 1)[1])\n            for entry in submodule_entries\n            if "\\n" in entry\n', '            Path(entry.splitlines()[1])\n            for entry in submodule_entries\n')
for _p in ("C08", "C10"):
    V(_p, "block-end-needs-bare-delimiter", "F", "R4", R + "comment.py", "                if line.rstrip().endswith(cls.MULTI_LINE.end):\n", "                if line.endswith(cls.MULTI_LINE.end):\n")
V("C20", "notice-test-unanchored", "F", "R2", CPP, "        match = pattern.match(statement)\n", "        match = pattern.search(statement)\n")
V("C02", "end-pattern-without-trailing-blanks", "F", "R1", EXP, '_END_PATTERN = r"{}[ \\t]*$".format(', '_END_PATTERN = r"{}$".format(')
# C10-R9: requested free-text values enter ReuseInfo in the reader's normal form
V("C10", "copyright-value-not-stripped", "F", "R9", CAP, "            item.strip(), year=year, copyright_prefix=copyright_prefix\n", "            item, year=year, copyright_prefix=copyright_prefix\n")
V("C10", "contributor-value-not-stripped", "F", "R9", CAP, "contributor_lines={item.strip() for item in contributors}", "contributor_lines=set(contributors)")
V("C10", "contributor-strip-via-map", "S", "", CAP, "contributor_lines={item.strip() for item in contributors}", "contributor_lines=set(map(str.strip, contributors))")
V2("C10", "copyright-strip-inside-builder", "S", "", [
    (CAP, "            item.strip(), year=year, copyright_prefix=copyright_prefix\n", "            item, year=year, copyright_prefix=copyright_prefix\n"),
    (CPP, '    if "\\n" in statement:\n', '    statement = statement.strip()\n    if "\\n" in statement:\n')])
V("C20", "contributor-strip-via-map", "S", "", CAP, "contributor_lines={item.strip() for item in contributors}", "contributor_lines={c.strip() for c in contributors}")
V("C10", "contributor-strip-at-call-site", "S", "", CAP, "    reuse_info = get_reuse_info(\n        copyrights, licenses, contributors, copyright_prefix, year\n    )\n",
  "    reuse_info = get_reuse_info(\n        [c.strip() for c in copyrights], licenses, [c.strip() for c in contributors], copyright_prefix, year\n    )\n")
for _p, _r in (("C06", "R4"), ("C01", "C06.R4"), ("C19", "C06.R4")):
    V(_p, "whole-name-not-looked-up-first", "F", _r, R + "project.py", "        if not path.suffix or (\n            path.name in self.license_map\n            and not _LICENSEREF_PATTERN.match(path.name)\n        ):\n", "        if not path.suffix:\n")
V("C06", "whole-name-test-as-own-branch", "S", "", R + "project.py", "        if not path.suffix or (\n            path.name in self.license_map\n            and not _LICENSEREF_PATTERN.match(path.name)\n        ):\n            raise SpdxIdentifierNotFoundError(f\"{path} has no file extension\")\n",
  "        if not path.suffix:\n            raise SpdxIdentifierNotFoundError(f\"{path} has no file extension\")\n        if path.name in self.license_map and not _LICENSEREF_PATTERN.match(path.name):\n            raise SpdxIdentifierNotFoundError(f\"{path} has no file extension\")\n")
V("C19", "dangling-link-written-through", "F", "R1", R + "download.py", "    if destination.exists() or destination.is_symlink():\n", "    if destination.exists():\n")
V("C19", "existence-by-lexists", "S", "", R + "download.py", "    if destination.exists() or destination.is_symlink():\n", "    if os.path.lexists(destination):\n")
V("C19", "link-test-first", "S", "", R + "download.py", "    if destination.exists() or destination.is_symlink():\n", "    if destination.is_symlink() or destination.exists():\n")

# ----------------------------------------------------------------- round 7 rules
_FIB_OLD = """    ignore_start = None
    ignore_end = None
    if REUSE_IGNORE_START in text:
        ignore_start = text.index(REUSE_IGNORE_START)
    if REUSE_IGNORE_END in text:
        ignore_end = text.index(REUSE_IGNORE_END) + len(REUSE_IGNORE_END)
    if ignore_start is None:
        return text
    if ignore_end is None:
        return text[:ignore_start]
    if ignore_end > ignore_start:
        return text[:ignore_start] + filter_ignore_block(text[ignore_end:])
    rest = text[ignore_start + len(REUSE_IGNORE_START) :]
    if REUSE_IGNORE_END in rest:
        ignore_end = rest.index(REUSE_IGNORE_END) + len(REUSE_IGNORE_END)
        return text[:ignore_start] + filter_ignore_block(rest[ignore_end:])
    return text[:ignore_start]
"""


def _fib(pattern, call):
    return [(EXP, _FIB_OLD, "    return " + call + "\n"),
            (EXP, "# Amount of bytes that we assume will be big enough", "_IGNORE_BLOCK_PATTERN = re.compile(" + pattern + ", re.DOTALL)\n\n# Amount of bytes that we assume will be big enough")]


_GOODP = 'r"{}.*?(?:{}|\\Z)".format(re.escape(REUSE_IGNORE_START), re.escape(REUSE_IGNORE_END))'
V2("C12", "substitution-form-correct", "S", "", _fib(_GOODP, '_IGNORE_BLOCK_PATTERN.sub("", text)'))
V2("C12", "substitution-form-flag-as-count", "F", "R2", _fib(_GOODP, 're.sub(_IGNORE_BLOCK_PATTERN, "", text, re.DOTALL)'))
V2("C12", "substitution-form-count-1", "F", "R2", _fib(_GOODP, '_IGNORE_BLOCK_PATTERN.sub("", text, 1)'))
V2("C12", "substitution-form-greedy", "F", "R2", _fib('r"{}.*(?:{}|\\Z)".format(re.escape(REUSE_IGNORE_START), re.escape(REUSE_IGNORE_END))', '_IGNORE_BLOCK_PATTERN.sub("", text)'))
V2("C12", "substitution-form-needs-end-marker", "F", "R2", _fib('r"{}.*?{}".format(re.escape(REUSE_IGNORE_START), re.escape(REUSE_IGNORE_END))', '_IGNORE_BLOCK_PATTERN.sub("", text)'))
V2("C01", "substitution-form-correct", "S", "", _fib(_GOODP, '_IGNORE_BLOCK_PATTERN.sub("", text)'))
# C02-R5: the bytes decoded are the bytes read
V("C02", "window-shortened-before-decode", "F", "R5", EXP, "    rawdata = binary_file.read(size)\n", "    rawdata = binary_file.read(size)\n    rawdata = rawdata[: rawdata.rfind(b\"\\n\") + 1]\n")
V("C02", "read-and-decode-inline", "S", "", EXP, "    rawdata = binary_file.read(size)\n    result = rawdata.decode(\"utf-8\", errors=\"replace\")\n", "    result = binary_file.read(size).decode(\"utf-8\", errors=\"replace\")\n")
# C03-R7: VCS output is not decoded lossily
V("C03", "vcs-names-decoded-with-replace", "F", "R7", R + "vcs.py", '            "-z",\n        ]\n        result = execute_command(command, _LOGGER, cwd=self.root)\n        all_files = result.stdout.decode("utf-8").split("\\0")\n', '            "-z",\n        ]\n        result = execute_command(command, _LOGGER, cwd=self.root)\n        all_files = result.stdout.decode("utf-8", errors="replace").split("\\0")\n')
# C10-R9: trimmed, not rewritten
V("C10", "contributor-value-collapsed", "F", "R9", CAP, "contributor_lines={item.strip() for item in contributors}", 'contributor_lines={" ".join(item.split()) for item in contributors}')
# hygiene H1 / H2 on the real tree
V("C04", "mutable-default-accumulates", "F", "H", R + "global_licensing.py", "    def _find_relevant_tomls(self, path: StrPath) -> list[ReuseTOML]:\n        found = []\n", "    def _find_relevant_tomls(self, path: StrPath, found: list = []) -> list[ReuseTOML]:\n")
V("C03", "covered-files-as-generator", "F", "H", CAP, "all_files = [path.resolve() for path in project.all_files()]", "all_files = (path.resolve() for path in project.all_files())")
V("C03", "covered-files-as-set", "S", "", CAP, "all_files = [path.resolve() for path in project.all_files()]", "all_files = {path.resolve() for path in project.all_files()}")
# C14-R6 drivers
V("C14", "container-clears-callers-licences", "F", "R6", R + "report.py", "            self.has_dep5 = bool(project.global_licensing)\n", "            self.has_dep5 = bool(project.global_licensing)\n            project.global_licensing = None\n")
# C14-R12 / C06-R4: the whole-name lookup must not read LicenseRef- names the scan itself registered
_WN = "        if not path.suffix or (\n            path.name in self.license_map\n            and not _LICENSEREF_PATTERN.match(path.name)\n        ):\n"
for _p, _r in (("C14", "R12"), ("C06", "R4")):
    V(_p, "whole-name-lookup-reads-scan-state", "F", _r, R + "project.py", _WN, "        if not path.suffix or path.name in self.license_map:\n")
V("C14", "whole-name-lookup-lref-test-first", "S", "", R + "project.py", _WN, "        if not path.suffix or (\n            not _LICENSEREF_PATTERN.match(path.name)\n            and path.name in self.license_map\n        ):\n")
# C11-R10 / C08-R6: encodable before the truncating open
_ENC = "            (bom + output).encode(\"utf-8\")\n"
for _p, _r in (("C11", "R10"), ("C08", "R6"), ("C10", "C08.R6")):
    V(_p, "header-not-encoded-before-open", "F", _r, ANP, _ENC, "            pass\n")
V("C11", "encode-check-without-the-constant-bom", "S", "", ANP, _ENC, "            output.encode(\"utf-8\")\n")
V("C11", "encode-check-on-other-text", "F", "R10", ANP, _ENC, "            text.encode(\"utf-8\")\n")
# C17-R2: the converter writes the accessor the dep5 reader parses
V("C17", "converter-writes-whole-license-field", "F", "R2", R + "convert_dep5.py", '"SPDX-License-Identifier": paragraph.license.synopsis,', '"SPDX-License-Identifier": paragraph.license.to_str(),')
V("C17", "converter-licence-via-cast", "S", "", R + "convert_dep5.py", '"SPDX-License-Identifier": paragraph.license.synopsis,', '"SPDX-License-Identifier": cast(str, paragraph.license.synopsis),')
# round 8: declarative parts
V("C18", "alias-not-a-flag", "F", "H", R + "cli/spdx.py", '    "add_license_concluded",\n    is_flag=True,\n    hidden=True,\n', '    "add_license_concluded",\n    hidden=True,\n')
V("C10", "copyright-option-not-multiple", "F", "H", CAP, '    metavar=_("COPYRIGHT"),\n    type=str,\n    multiple=True,\n', '    metavar=_("COPYRIGHT"),\n    type=str,\n')
V("C03", "git-ignored-query-with-cached", "F", "R5", R + "vcs.py", '            "--others",\n', '            "--others",\n            "--cached",\n')
V("C03", "vcs-environment-replaced", "F", "R5", R + "_util.py", "        cwd=str(cwd),\n        **kwargs,\n", "        cwd=str(cwd),\n        env={\"LC_ALL\": \"C\"},\n        **kwargs,\n")
V("C03", "vcs-environment-extended", "S", "", R + "_util.py", "        cwd=str(cwd),\n        **kwargs,\n", "        cwd=str(cwd),\n        env={**os.environ, \"LC_ALL\": \"C\"},\n        **kwargs,\n")
V("C06", "parser-with-symbol-table", "F", "R5", R + "__init__.py", "_LICENSING = Licensing()", "_LICENSING = Licensing([\"MIT\"])")
V("C17", "toml-reader-simple-tokenizer", "F", "R7", R + "global_licensing.py", "            result.add(_LICENSING.parse(expression))\n", "            result.add(_LICENSING.parse(expression, simple=True))\n")
V("C18", "output-not-lazy", "F", "R8", R + "cli/spdx.py", 'type=click.File("w", encoding="utf-8", lazy=True),', 'type=click.File("w", encoding="utf-8"),')
V("C16", "format-spec-on-path", "F", "R6", R + "report.py", "Unexpected error occurred while parsing '{path}'", "Unexpected error occurred while parsing '{path:s}'")
V("C16", "format-spec-after-conversion", "S", "", R + "report.py", "Unexpected error occurred while parsing '{path}'", "Unexpected error occurred while parsing '{path!s:s}'")
V("C14", "toml-directory-normalised", "F", "R13", R + "global_licensing.py", "        return PurePath(self.source).parent\n", "        import os\n        return PurePath(os.path.normpath(self.source)).parent\n")
V("C07", "c-terminator-with-blank", "F", "R8", R + "comment.py", '    SHORTHAND = "c"\n\n    MULTI_LINE = MultiLineSegments("/*", "*", "*/")\n    INDENT_BEFORE_MIDDLE = " "\n    INDENT_AFTER_MIDDLE = " "\n    INDENT_BEFORE_END = " "\n', '    SHORTHAND = "c"\n\n    MULTI_LINE = MultiLineSegments("/*", "*", " */")\n    INDENT_BEFORE_MIDDLE = " "\n    INDENT_AFTER_MIDDLE = " "\n')
V("C04", "enum-alias", "F", "H", R + "__init__.py", 'DOT_LICENSE = "dot-license"', 'DOT_LICENSE = "file-header"')
# C07-R12 / C02-R11 / C04-R9: the parser's None is no expression
for _p, _r in (("C07", "R12"), ("C02", "R11"), ("C04", "R9"), ("C01", "C02.R11")):
    V(_p, "empty-tag-stored-as-none", "F", _r, EXP, "        if parsed is not None:\n            expressions.add(parsed)\n", "        expressions.add(parsed)\n")
V("C07", "empty-license-option-accepted", "F", "R12", R + "cli/common.py", "    if expression is None:\n        raise click.UsageError(\n            _(\"'{}' is not a valid SPDX expression.\").format(text)\n        )\n    return expression\n", "    return expression\n")
# H9: explicit encodings
V("C17", "reuse-toml-written-in-locale-encoding", "F", "H", R + "cli/convert_dep5.py", 'write_text(text, encoding="utf-8")', "write_text(text)")
V("C08", "annotated-file-read-in-locale-encoding", "F", "H", ANP, 'with open(path, "r", encoding="utf-8", newline="") as fp:', 'with open(path, "r", newline="") as fp:')
V("C03", "file-reports-equal-by-basename", "F", "R9", R + "report.py", "    def __hash__(self) -> int:\n        if self.chk_sum is not None:", "    def __eq__(self, other: object) -> bool:\n        return isinstance(other, FileReport) and (self.path.name, self.chk_sum) == (other.path.name, other.chk_sum)\n\n    def __hash__(self) -> int:\n        if self.chk_sum is not None:")
V("C03", "file-reports-equal-by-path", "S", "", R + "report.py", "    def __hash__(self) -> int:\n        if self.chk_sum is not None:", "    def __eq__(self, other: object) -> bool:\n        return isinstance(other, FileReport) and (self.path, self.chk_sum) == (other.path, other.chk_sum)\n\n    def __hash__(self) -> int:\n        if self.chk_sum is not None:")
V("C08", "annotated-file-read-leniently", "F", "R2", ANP, 'with open(path, "r", encoding="utf-8", newline="") as fp:', 'with open(path, "r", encoding="utf-8", errors="replace", newline="") as fp:')
V("C14", "duplicate-guard-on-other-container", "F", "R12", R + "project.py", "            if identifier in license_files:\n", "            if identifier in self.licenses:\n")
V("C10", "blank-copyright-accepted", "F", "R9", CAP, "            if not value.strip():\n", "            if False:\n")
V("C10", "multi-line-value-accepted", "F", "R9", CAP, "            if len(value.splitlines()) > 1:\n", "            if False:\n")
# indirection inventory: constructs the rules cannot see through are 'undecided', never a silent pass
V("C04", "cache-decorator-on-license-path", "U", "", R + "_util.py", "def _determine_license_path(path: StrPath) -> Path:\n", "@__import__(\"functools\").lru_cache(maxsize=None)\ndef _determine_license_path(path: StrPath) -> Path:\n")
V("C09", "reuseinfo-gets-len", "U", "", R + "__init__.py", "    def __bool__(self) -> bool:\n", "    def __len__(self) -> int:\n        return len(self.spdx_expressions)\n\n    def __bool__(self) -> bool:\n")
V("C08", "style-overrides-finder", "U", "", R + "comment.py", '    SHORTHAND = "c"\n\n    MULTI_LINE = MultiLineSegments("/*", "*", "*/")\n', '    SHORTHAND = "c"\n\n    @classmethod\n    def comment_at_first_character(cls, text: str) -> str:\n        return super().comment_at_first_character(text)\n\n    MULTI_LINE = MultiLineSegments("/*", "*", "*/")\n')
V("C02", "import-time-monkeypatch", "U", "", EXP, "_LOGGER = logging.getLogger(__name__)\n", "_LOGGER = logging.getLogger(__name__)\nre.DOTALL_ = re.DOTALL\n")


# ----------------------------------------------------------------- round 12: one-token mutants that survived the suite
# (mutsweep.py) and the repairs that came out of the round-11 observations
CFP = R + "covered_files.py"
GLP = R + "global_licensing.py"
# names / paths with line breaks: `$` also matches before one final "\n", `.` does not match "\n"
V("C03", "file-patterns-prefix-match-again", "F", "R1", CFP, "            if pattern.fullmatch(name) and (\n", "            if pattern.match(name) and (\n")
V("C03", "license-pattern-dot-without-dotall", "F", "R1", CFP, 're.compile(r".*\\.license$", re.DOTALL)', 're.compile(r".*\\.license$")')
V("C03", "dir-pattern-end-of-string-anchor", "S", "", CFP, 're.compile(r"^\\.git$"),\n    re.compile(r"^\\.hg$")', 're.compile(r"^\\.git\\Z"),\n    re.compile(r"^\\.hg$")')
V("C03", "dir-patterns-search", "F", "R1", CFP, "            if pattern.fullmatch(name):\n", "            if pattern.search(name):\n")
V("C05", "glob-prefix-match-again", "F", "R2", GLP, "return bool(self._paths_regex.fullmatch(path))", "return bool(self._paths_regex.match(path))")
V("C05", "globstar-without-dotall", "F", "R2", GLP, '"|".join(translate(path) for path in self.paths), re.DOTALL\n', '"|".join(translate(path) for path in self.paths)\n')
V("C06", "licenseref-dollar-anchor", "F", "R5", EXP, 're.compile(r"LicenseRef-[a-zA-Z0-9-.]+\\Z")', 're.compile(r"LicenseRef-[a-zA-Z0-9-.]+$")')
# non-regular files are not covered files
V("C03", "fifo-is-a-covered-file-again", "F", "R2", CFP, "    else:\n        # Neither a regular file nor a directory (a FIFO, a socket, a device).\n        _LOGGER.debug(\"skipping '%s' because it is not a regular file\", path)\n        return True\n", "")
# VCS queries
V("C03", "git-no-empty-directory-back", "F", "R5", R + "vcs.py", '            "--directory",\n            # Separate', '            "--directory",\n            "--no-empty-directory",\n            # Separate')
V("C03", "vcs-command-in-process-cwd", "F", "R5", R + "_util.py", "        cwd=str(cwd),\n", "")
V("C03", "jujutsu-prefix-test-inverted", "F", "R5", R + "vcs.py", "if tracked.parts[: len(path.parts)] == path.parts:", "if tracked.parts[: len(path.parts)] != path.parts:")
V("C03", "pijul-membership-inverted", "F", "R5", R + "vcs.py", "return path not in self._all_tracked_files", "return path in self._all_tracked_files")
# first-line declarations
V("C08", "shebang-lines-by-splitlines", "F", "R3", HDP, "    for line in StringIO(text):\n", "    for line in text.splitlines(keepends=True):\n")
V("C08", "shebang-lines-by-lookbehind-split", "S", "", HDP, "    for line in StringIO(text):\n", "    for line in re.split(r\"(?<=\\n)\", text):\n")
V("C08", "shebang-table-left-after-first-entry", "F", "R3", HDP, "                before, after = _extract_shebang(shebang, after)\n            else:\n                continue\n            break\n", "                before, after = _extract_shebang(shebang, after)\n            else:\n                pass\n            break\n")
V("C08", "shebang-loop-breaks-in-branches", "S", "", HDP, "                before, header = _extract_shebang(shebang, header)\n            elif after.startswith(shebang) and not any((before, header)):\n                before, after = _extract_shebang(shebang, after)\n            else:\n                continue\n            break\n", "                before, header = _extract_shebang(shebang, header)\n                break\n            elif after.startswith(shebang) and not any((before, header)):\n                before, after = _extract_shebang(shebang, after)\n                break\n")
# --merge-copyrights on a file without header
V("C10", "merge-only-with-existing-header", "F", "R10", HDP, "    elif merge_copyrights:\n        # Write the requested lines the way a later run would merge them.\n        reuse_info = reuse_info.copy(\n            copyright_lines=merge_copyright_lines(reuse_info.copyright_lines)\n        )\n", "")
V("C09", "merged-request-without-header", "S", "", HDP, "    elif merge_copyrights:\n        # Write the requested lines the way a later run would merge them.\n", "    elif merge_copyrights:\n        # the request is written in merged form\n")
# checks without consequence, swallowed configuration errors
V("C16", "annotations-type-check-without-raise", "F", "R2", GLP, "            raise GlobalLicensingParseTypeError(\n                _(\n                    \"{attr_name} must be a {type_name} (got {value} that is a\"\n                    \" {value_class}).\"\n                ).format(\n                    attr_name=repr(\"annotations\"),\n                    type_name=\"list of tables\",\n                    value=repr(annotation_dicts),\n                    value_class=repr(annotation_dicts.__class__),\n                ),\n                source=source,\n            )\n", "            pass\n")
V("C16", "conflict-error-swallowed", "F", "H", R + "cli/common.py", "        except (GlobalLicensingConflictError, OSError) as error:\n            raise click.UsageError(str(error)) from error\n", "        except (GlobalLicensingConflictError, OSError) as error:\n            pass\n")
# type tables
V("C07", "extension-keys-not-lowered", "F", "R15", R + "comment.py", "    key.lower(): value for key, value in EXTENSION_COMMENT_STYLE_MAP.items()", "    key: value for key, value in EXTENSION_COMMENT_STYLE_MAP.items()")
V("C07", "suffix-not-lowered", "F", "R15", R + "comment.py", "EXTENSION_COMMENT_STYLE_MAP_LOWERCASE.get(path.suffix.lower()),", "EXTENSION_COMMENT_STYLE_MAP_LOWERCASE.get(path.suffix),")
V("C10", "two-line-value-accepted", "F", "R9", CAP, "            if len(value.splitlines()) > 1:\n", "            if len(value.splitlines()) > 2:\n")
V("C10", "two-line-value-refused-ge", "S", "", CAP, "            if len(value.splitlines()) > 1:\n", "            if len(value.splitlines()) >= 2:\n")
# equivalent mutants the first versions of two rules flagged (frozen fragments)
V("C14", "worker-reparse-guard-without-has-dep5", "S", "", R + "report.py", "        if self.has_dep5 and not self.reuse_dep5:\n", "        if not self.reuse_dep5:\n")
V("C17", "worker-reparse-guard-without-has-dep5", "S", "", R + "report.py", "        if self.has_dep5 and not self.reuse_dep5:\n", "        if not self.reuse_dep5:\n")
V("C14", "worker-does-not-store-dep5", "F", "R2", R + "report.py", "                self.project.global_licensing = self.reuse_dep5\n", "                pass\n")
V("C17", "matcher-emits-nonslash-run-after-globstar", "S", "", GLP, '                    if prev_char == "*" and not globstar:\n                        blocks.append(r"[^/]*")\n                    blocks.append(re.escape(char))', '                    if prev_char == "*":\n                        blocks.append(r"[^/]*")\n                    blocks.append(re.escape(char))')
# the empty-glob filter is harmless only while the compiled globs must match the whole path
V2("C05", "empty-glob-filter-under-prefix-match", "F", "R1", [
    (GLP, '"|".join(translate(path) for path in self.paths), re.DOTALL\n', '"|".join(translate(path) for path in self.paths if path), re.DOTALL\n'),
    (GLP, "return bool(self._paths_regex.fullmatch(path))", "return bool(self._paths_regex.match(path))")])
V("C05", "empty-glob-filter-under-fullmatch", "S", "", GLP, '"|".join(translate(path) for path in self.paths), re.DOTALL\n', '"|".join(translate(path) for path in self.paths if path), re.DOTALL\n')
# second triage of the sweep's silent survivors
V("C03", "hg-every-directory-a-submodule", "F", "R5", R + "vcs.py", "    def is_submodule(self, path: StrPath) -> bool:\n        # TODO: Implement me.\n        return False\n", "    def is_submodule(self, path: StrPath) -> bool:\n        # TODO: Implement me.\n        return True\n")
V("C03", "recursive-children-not-resolved", "F", "R4", CAP, "        all_files = [path.resolve() for path in project.all_files()]\n", "        all_files = [path for path in project.all_files()]\n")
V("C03", "recursive-directory-not-resolved", "F", "R4", CAP, "                    if path.resolve() in child.parents\n", "                    if path in child.parents\n")
V("C08", "new-header-loop-goes-on-after-extraction", "F", "R3", HDP, "                shebang, text = _extract_shebang(shebang_prefix, text)\n                break\n", "                shebang, text = _extract_shebang(shebang_prefix, text)\n")
V("C08", "new-header-extracts-when-not-matching", "F", "R3", HDP, "            if text.startswith(shebang_prefix):\n", "            if not text.startswith(shebang_prefix):\n")
V("C16", "toml-expression-error-swallowed", "F", "R8", GLP, "        except (ExpressionError, ParseError) as error:\n            raise GlobalLicensingParseValueError(", "        except (ExpressionError, ParseError) as error:\n            continue\n            raise GlobalLicensingParseValueError(")
V("C13", "lines-output-not-echoed", "F", "R9", R + "cli/lint.py", "        click.echo(format_lines(report), nl=False)\n", "        format_lines(report)\n")
V("C13", "json-and-lines-swapped", "F", "R9", R + "cli/lint.py", "        click.echo(format_json(report), nl=False)\n    elif lines:\n        click.echo(format_lines(report), nl=False)\n", "        click.echo(format_lines(report), nl=False)\n    elif lines:\n        click.echo(format_json(report), nl=False)\n")
V("C13", "json-sets-not-serialised", "F", "R10", R + "lint.py", "        default=custom_serializer,\n", "")
V("C13", "plain-files-without-licence-not-listed", "F", "R1", R + "lint.py", "            for file in sorted(files_without_licenses_excl):\n                output.write(f\"* {file}\\n\")\n", "            for file in sorted(files_without_licenses_excl):\n                pass\n")
V("C09", "empty-style-clears-only-a-found-header", "S", "", HDP, "    if style is EmptyCommentStyle:\n        after = \"\"\n", "    if style is EmptyCommentStyle and header:\n        after = \"\"\n")
V("C14", "concluded-join-through-a-local", "S", "", RPT, '            report.license_concluded = (\n                _LICENSING.parse(\n                    " AND ".join(\n                        f"({expression})"\n                        for reuse_info in reuse_infos\n                        for expression in reuse_info.spdx_expressions\n                    ),\n                )\n                .simplify()\n                .render()\n            )\n', '            conjunction = " AND ".join(\n                f"({expression})"\n                for reuse_info in reuse_infos\n                for expression in reuse_info.spdx_expressions\n            )\n            report.license_concluded = (\n                _LICENSING.parse(conjunction).simplify().render()\n            )\n')
V("C14", "concluded-join-not-simplified", "F", "R1", RPT, "                .simplify()\n                .render()\n", "                .render()\n")
# third triage pass of the sweep
V("C11", "unencodable-header-counts-as-success", "F", "R1", ANP, '            out.write("\\n")\n            return 1\n        with open(path, "w"', '            out.write("\\n")\n            return 0\n        with open(path, "w"')
V("C02", "snippet-answer-inverted", "F", "R5", EXP, "    if SPDX_SNIPPET_INDICATOR in content:\n        return True\n    return False\n", "    if SPDX_SNIPPET_INDICATOR in content:\n        return False\n    return False\n")
V("C13", "plain-read-errors-not-listed", "F", "R1", R + "lint.py", "            for path in sorted(report.read_errors):\n                output.write(f\"* {path}\\n\")\n", "            for path in sorted(report.read_errors):\n                pass\n")
V("C16", "annotations-guard-conjunction", "F", "R2", GLP, "        if not isinstance(annotation_dicts, list) or not all(\n", "        if not isinstance(annotation_dicts, list) and not all(\n")
V("C04", "impossible-found-list-not-refused", "S", "", R + "project.py", "        if not all(item.cls == ReuseTOML for item in found):\n            raise NotImplementedError()\n", "")
V("C19", "success-message-dropped", "S", "", R + "cli/download.py", "            _successfully_downloaded(destination)\n", "            pass\n")
V("C03", "no-multiprocessing-option-not-stored", "S", "", R + "cli/main.py", "        no_multiprocessing=no_multiprocessing,\n", "")
# round 13: the REPAIRED refactorings (the seeded fault put right, the rest of the diff kept) must not raise an alarm anywhere.
# Three of them are honestly undecided for one property each (another algorithm than the one the rule models).
_R13_UNDECIDED = {("C06", "C06"), ("C06", "C01"), ("C06", "C19"), ("C13", "C13"), ("C20", "C20"), ("C20", "C07"), ("C20", "C09"), ("C20", "C10")}
for _b in ("C02", "C03", "C06", "C07", "C08", "C11", "C13", "C14", "C15", "C16", "C17", "C19", "C20"):
    for _i in range(1, 21):
        _p = f"C{_i:02d}"
        VARIANTS.append({"prop": _p, "id": f"{_p}:r13-repaired-refactor-{_b}", "expect": "U" if (_b, _p) in _R13_UNDECIDED else "S", "rule": "", "edits": [],
                         "patchfile": _os.path.join(_BP, f"r13-{_b}.diff")})
for _b in ("C01", "C04", "C05", "C09", "C10"):
    for _i in range(1, 21):
        _p = f"C{_i:02d}"
        VARIANTS.append({"prop": _p, "id": f"{_p}:r13-repaired-refactor-{_b}", "expect": "N", "rule": "", "edits": [],
                         "patchfile": _os.path.join(_BP, f"r13-{_b}.diff")})
# round 14: sixty behaviour-preserving refactorings written by sub-agents that saw only a property's text (three per property; each
# passes the unchanged suite and a differential old-vs-new comparison).  None of them may raise a violation in ANY check
# (exit 0, or exit 2 where the rewritten algorithm is one the rule does not model).
for _i in range(1, 21):
    for _k in (1, 2, 3):
        for _j in range(1, 21):
            _p = f"C{_j:02d}"
            VARIANTS.append({"prop": _p, "id": f"{_p}:r14-benign-C{_i:02d}-{_k}", "expect": "N", "rule": "", "edits": [],
                             "patchfile": _os.path.join(_BP, f"r14-C{_i:02d}-{_k}.diff")})
# second mutant sweep (mutsweep.py gen2): silent survivors that break a property
V("C13", "plain-section-lists-other-category", "F", "R11", R + "lint.py", "            for lic in sorted(report.licenses_without_extension):\n", "            for lic in sorted(report.licenses):\n")
V("C13", "plain-summary-missing-shows-bad", "F", "R11", R + "lint.py", '_("Missing licenses:"): ", ".join(report.missing_licenses),', '_("Missing licenses:"): ", ".join(report.bad_licenses),')
V("C13", "plain-summary-deprecated-shows-unused", "F", "R11", R + "lint.py", '_("Deprecated licenses:"): ", ".join(report.deprecated_licenses),', '_("Deprecated licenses:"): ", ".join(report.unused_licenses),')
V("C12", "continue-one-past-end-marker-in-rest", "F", "R2", R + "extract.py", "filter_ignore_block(rest[ignore_end:])", "filter_ignore_block(rest[ignore_end + 1 :])")
V("C12", "continue-at-start-offset-in-rest", "F", "R2", R + "extract.py", "filter_ignore_block(rest[ignore_end:])", "filter_ignore_block(rest[ignore_start:])")
# round 15 (held out): forty more behaviour-preserving refactorings in two batches, written AFTER the corrections of round 14 by
# sub-agents that again saw only a property's text; first contact: 14 of 20, then 17 of 20 without a violation.  Same expectation: never a violation.
for _c in ("C01", "C02", "C03", "C04", "C05", "C06", "C07", "C08", "C09", "C10", "C11", "C12", "C13", "C14", "C15", "C16", "C17", "C18", "C19", "C20"):
    for _k in (1, 2):
        for _j in range(1, 21):
            _p = f"C{_j:02d}"
            VARIANTS.append({"prop": _p, "id": f"{_p}:r15-heldout-{_c}-{_k}", "expect": "N", "rule": "", "edits": [],
                             "patchfile": _os.path.join(_BP, f"r15-{_c}-{_k}.diff")})
