#!/venv/bin/python
"""Regenerate sa/local_names.json (reference names of function locals, see sa/canon.py) from /repo's tree.
Run only on a tree whose checks are green: the table fixes which NAMES the rules use, nothing about behaviour."""
import json, sys
from pathlib import Path
sys.path.insert(0, str(Path(__file__).resolve().parent))
from sa.canon import make_table, TABLE
t = make_table(Path(sys.argv[1] if len(sys.argv) > 1 else "/repo/src"))
TABLE.write_text(json.dumps(t, indent=0, sort_keys=True))
print(len(t), "functions,", sum(len(v) for v in t.values()), "bindings ->", TABLE)

# the inventory of indirection constructs confirmed on this tree (sa/inventory.py)
from sa.model import Repo
from sa import inventory
n = inventory.write_reference(Repo(Path(sys.argv[1]).parent if len(sys.argv) > 1 else None))
print(n, "inventory entries ->", inventory.REF)
