#!/usr/bin/env python3
"""store_seed.py <Cnn> <round-tag> <src-dir> <breaks> <needs> <caught_by;...>  - copy a confirmed seed into /verif/seeded and drop its scratch worktree"""
import json, os, shutil, subprocess, sys
prop, tag, src, breaks, needs, caught = sys.argv[1:7]
dst = f"/verif/seeded/{prop}-{tag}"
os.makedirs(dst, exist_ok=True)
for f in ("patch.diff", "demo.py", "notes.md"):
    if os.path.exists(os.path.join(src, f)):
        shutil.copy(os.path.join(src, f), dst)
meta = {"property": prop, "breaks": breaks, "needs": needs, "caught_by": [c.strip() for c in caught.split(";") if c.strip()],
        "confirmed": "scratch worktree of /repo HEAD: demo exits 0 without the patch and 1 with it; full test suite with the patch: 9 failed, 556 passed, 12 skipped (= baseline)",
        "ran": [f"/verif/confirm_seed.sh {dst}", f"/verif/seedtest.sh {dst}/patch.diff {prop}"],
        "source": f"fresh sub-agent ({tag}: told only the property text and which earlier ideas to avoid), own scratch worktree"}
json.dump(meta, open(os.path.join(dst, "meta.json"), "w"), indent=1)
wt = {"agent3": f"/tmp/wt3-{prop}", "agent4": f"/tmp/wt4-{prop}", "agent5": f"/tmp/wt5-{prop}", "agent6": f"/tmp/wt6-{prop}", "agent7": f"/tmp/wt7-{prop}", "agent8": f"/tmp/wt8-{prop}", "agent9": f"/tmp/wt9-{prop}", "agent10": f"/tmp/wt10-{prop}", "agent11": f"/tmp/wt11-{prop}", "agent12": f"/tmp/wt12-{prop}", "agent13": f"/tmp/wt13-{prop}", "agent14": f"/tmp/wt14-{prop}"}.get(tag, f"/tmp/wt-{prop}")
if os.path.isdir(wt):
    subprocess.run(["git", "-C", "/repo", "worktree", "remove", "--force", wt])
shutil.rmtree(src, ignore_errors=True)
print("stored", dst)
