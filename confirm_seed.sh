#!/bin/bash
# usage: confirm_seed.sh <seed-dir with patch.diff + demo.py|test_demo.py>
# Confirms in a scratch worktree of /repo: suite unchanged with the patch, demo fails with / passes without.
set -u
d="$1"; name=$(basename "$d")
wt=/tmp/confirm-$name
git -C /repo worktree remove --force $wt 2>/dev/null
git -C /repo worktree add -q --detach $wt HEAD || exit 9
cd $wt
demo() {
  if [ -f "$d/demo.py" ]; then REUSE_SRC=$wt/src PYTHONPATH=$wt/src timeout 300 /venv/bin/python "$d/demo.py" >/tmp/confirm-$name.$1.log 2>&1; echo $?
  else REUSE_SRC=$wt/src PYTHONPATH=$wt/src timeout 300 /venv/bin/python -m pytest -q -p no:cacheprovider "$d/test_demo.py" >/tmp/confirm-$name.$1.log 2>&1; echo $?; fi
}
echo "demo without change: exit $(demo without)"
git apply "$d/patch.diff" || { echo "PATCH DOES NOT APPLY"; cd /; git -C /repo worktree remove --force $wt; exit 9; }
/venv/bin/python -m compileall -q src/reuse >/dev/null && echo "compiles: yes"
echo "demo with change:    exit $(demo with)"
echo "suite with change:   $(PYTHONPATH=$wt/src /venv/bin/python -m pytest -q -p no:cacheprovider --timeout=900 -n 12 2>&1 | tail -1)"
cd /; git -C /repo worktree remove --force $wt
rm -f /tmp/confirm-$name.*.log
