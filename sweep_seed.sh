#!/bin/bash
# usage: sweep_seed.sh <patch>  - apply a patch to /repo, run all 20 quick checks in parallel, list who fires, revert
p="$1"
git -C /repo apply "$p" || { echo "PATCH DOES NOT APPLY"; exit 9; }
trap 'git -C /repo checkout -- . ; git -C /repo clean -fdq src' EXIT
out=$(mktemp -d)
for i in 01 02 03 04 05 06 07 08 09 10 11 12 13 14 15 16 17 18 19 20; do
  ( /venv/bin/python /verif/check.py C$i > $out/C$i.log 2>&1; echo $? > $out/C$i.rc ) &
done
wait
for i in 01 02 03 04 05 06 07 08 09 10 11 12 13 14 15 16 17 18 19 20; do
  rc=$(cat $out/C$i.rc)
  if [ "$rc" != "0" ]; then
    rules=$(grep "^REPORT" $out/C$i.log | awk '{print $2}' | sort -u | tr '\n' ' ')
    [ "$rc" = "2" ] && rules="EXIT2: $(grep ANALYSIS-ERROR $out/C$i.log | head -1 | cut -c1-160)"
    echo "C$i rc=$rc $rules"
  fi
done
rm -rf $out
