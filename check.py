#!/venv/bin/python
"""Driver: check.py Cnn [--tier quick|thorough] | --explain <replay.json>

exit 0  property held on everything analysed (KNOWN-FINDING lines allowed)
exit 1  VIOLATION property=<id> replay=<path>   (not in known_findings.json)
exit 2  ANALYSIS-ERROR: the analyser cannot decide (vanished anchor, unknown
        construct, instance floor not reached, internal error)
"""
import argparse
import importlib
import json
import os
import re
import sys
import traceback

sys.path.insert(0, os.path.dirname(os.path.abspath(__file__)))

from sa.model import AnalysisError, Repo  # noqa: E402
from sa.report import Check  # noqa: E402


# A property that is stated over a whole pipeline inherits the obligations of the layers it is built on: a defect
# in the layer breaks the property as well.  (Only strict "the layer's rule is a necessary condition" relations.)
DEPENDS = {
    "C01": ["C02", "C03", "C04", "C05", "C06", "C12"],   # lint verdict = reading + covered set + attribution + globs + inventory + ignore blocks
    "C04": ["C05"],                                      # which annotation applies is decided by the glob matcher
    "C06": ["C02", "C03", "C04"],                        # which identifiers are USED: covered files x attributed expressions
    "C07": ["C02", "C20"],                               # what annotate writes is read back by the tag reader; notices are built by C20's builder
    "C09": ["C07"],                                      # information survives a run only if what is written is read back
    "C10": ["C07", "C08"],                               # the second run must find and reproduce what the first one wrote
    "C12": ["C02"],                                      # a tag outside every block contributes with exactly its value
    "C13": ["C03"],                                      # lint-file = lint on the covered files among F
    "C15": ["C03"],                                      # annotate --recursive touches exactly the covered files
    "C17": ["C05"],                                      # the converted globs are interpreted by the REUSE.toml matcher
    "C18": ["C02", "C03", "C04"],                        # SPDX document = covered files x attributed information
    "C19": ["C06"],                                      # `download --all` supplies exactly what lint reports missing
}


ANCHOR_MODULES: dict[str, list[str]] = {}   # only used when a property's own analysis stopped before naming any function


def closure(pid: str) -> list[str]:
    out: list[str] = []
    todo = list(DEPENDS.get(pid, []))
    while todo:
        d = todo.pop(0)
        if d != pid and d not in out:
            out.append(d)
            todo.extend(DEPENDS.get(d, []))
    return out


def main() -> int:
    ap = argparse.ArgumentParser()
    ap.add_argument("pid", nargs="?")
    ap.add_argument("--tier", default=os.environ.get("VERIF_TIER") or "quick",
                    choices=["quick", "thorough"])
    ap.add_argument("--explain")
    ns = ap.parse_args()
    if ns.explain:
        data = json.load(open(ns.explain))
        print(json.dumps(data, indent=1))
        print(f"re-derive with: check.py {data['property']} (rule {data['rule']},"
              f" construct {data['construct']})")
        return 0
    if not ns.pid:
        ap.error("property id required")
    pid = ns.pid.upper()
    try:
        mod = importlib.import_module(f"sa.props.{pid.lower()}")
        repo = Repo()
        ck = Check(pid, ns.tier)
        undecided = []
        try:
            mod.run(ck, repo)
        except AnalysisError as err:
            # the property's own analysis cannot decide this tree; the inherited layers and the hygiene lints still run:
            # a violation they find is reported (exit 1), otherwise the property stays undecided (exit 2)
            undecided.append(f"{pid}: {err}")
        for dep in closure(pid):
            from sa.report import SubCheck
            try:
                importlib.import_module(f"sa.props.{dep.lower()}").run(SubCheck(ck, dep), repo)
                ck.extra.setdefault("inherited_layers", []).append(dep)
            except AnalysisError as err:
                undecided.append(f"{dep}: {err}")
        # Python-semantics hygiene on the functions the rules above went through (sa/hygiene.py)
        from sa import hygiene
        if not ck.analysed and undecided:
            ck.analysed_fn(*[q for q in repo.functions if any(q.startswith(a) for a in ANCHOR_MODULES.get(pid, []))])
        hygiene.run(ck, repo)
        # indirection inventory (decorators, overrides, special methods, class options, import-time statements) of the
        # same scope: a deviation from the confirmed inventory is an undecided clause, never a silent pass
        from sa import inventory
        inventory.run(ck, repo, ck.extra.pop("hygiene_scope_resolved", []))
        undecided += [f"{pid}: {d}" if not re.match(r"C\d\d: ", d) else d for d in ck.deferred]
        # a report about a function that now delegates to a helper nobody has read is an undecided clause, not a violation
        from sa import gate
        undecided += [f"{pid}: {d}" for d in gate.demote(ck, repo)]
        code = ck.finish()
        if undecided and code == 0:
            own = undecided[0].startswith(pid + ":")
            print(f"ANALYSIS-ERROR property={pid}: " + ("" if own else "inherited layer undecided - ") + " | ".join(u if not u.startswith(pid + ": ") else u[len(pid) + 2:] for u in undecided))
            return 2
        for u in undecided:
            print(f"NOTE property={pid}: undecided - {u}")
        return code
    except AnalysisError as err:
        print(f"ANALYSIS-ERROR property={pid}: {err}")
        return 2
    except Exception:  # internal error: never look like a violation
        traceback.print_exc()
        print(f"ANALYSIS-ERROR property={pid}: internal error (traceback above)")
        return 2


if __name__ == "__main__":
    sys.stdout.reconfigure(line_buffering=True)
    code = main()
    sys.stdout.flush()
    os._exit(code)
