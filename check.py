#!/venv/bin/python
"""Driver: check.py Cnn [--tier quick|thorough] | --explain <replay.json>

exit 0  property held on everything analysed (KNOWN-FINDING lines allowed)
exit 1  VIOLATION property=<id> replay=<path>   (not in known_findings.json)
exit 2  ANALYSIS-ERROR: the analyser cannot decide (vanished anchor, unknown
        construct, instance floor not reached, internal error)
"""
import argparse
import importlib
import json
import os
import sys
import traceback

sys.path.insert(0, os.path.dirname(os.path.abspath(__file__)))

from sa.model import AnalysisError, Repo  # noqa: E402
from sa.report import Check  # noqa: E402


def main() -> int:
    ap = argparse.ArgumentParser()
    ap.add_argument("pid", nargs="?")
    ap.add_argument("--tier", default=os.environ.get("VERIF_TIER") or "quick",
                    choices=["quick", "thorough"])
    ap.add_argument("--explain")
    ns = ap.parse_args()
    if ns.explain:
        data = json.load(open(ns.explain))
        print(json.dumps(data, indent=1))
        print(f"re-derive with: check.py {data['property']} (rule {data['rule']},"
              f" construct {data['construct']})")
        return 0
    if not ns.pid:
        ap.error("property id required")
    pid = ns.pid.upper()
    try:
        mod = importlib.import_module(f"sa.props.{pid.lower()}")
        repo = Repo()
        ck = Check(pid, ns.tier)
        mod.run(ck, repo)
        return ck.finish()
    except AnalysisError as err:
        print(f"ANALYSIS-ERROR property={pid}: {err}")
        return 2
    except Exception:  # internal error: never look like a violation
        traceback.print_exc()
        print(f"ANALYSIS-ERROR property={pid}: internal error (traceback above)")
        return 2


if __name__ == "__main__":
    sys.stdout.reconfigure(line_buffering=True)
    code = main()
    sys.stdout.flush()
    os._exit(code)
