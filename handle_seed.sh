#!/bin/bash
# usage: handle_seed.sh <seed-dir> <props...>   - show, run checks, confirm
d="$1"; shift
echo "----- patch"; grep -E "^[-+]" "$d/patch.diff" | grep -v "^+++\|^---" | head -40
echo "----- checks"; LINES_MAX=5 /verif/seedtest.sh "$d/patch.diff" "$@"
echo "----- confirm"; /verif/confirm_seed.sh "$d" 2>&1 | grep -v conda
