#!/venv/bin/python
"""Automatic one-token mutants of /repo/src/reuse, as a validation harness for the checks (not a registered check).

    mutsweep.py gen                 write WORK/mutants.jsonl
    mutsweep.py run [-j 16] [-k op] for every mutant: unedited test suite first; for SURVIVORS (suite as on the clean
                                    tree) all twenty checks, quick tier, with VERIF_REPO pointing at the mutated copy
    mutsweep.py report              survivors by outcome (violation / undecided / silent)

The checks themselves never run repository code; this harness does (it runs the repository's test suite to find the
mutants "that still compile and pass the existing tests"), which is why it lives outside MANIFEST.json.  Scratch copies
live under WORK (default /tmp/mutsweep) and are removed at the end of `run`.
"""
from __future__ import annotations

import argparse
import ast
import json
import os
import shutil
import subprocess
import sys
from concurrent.futures import ThreadPoolExecutor
from pathlib import Path
from queue import Queue

HERE = Path(__file__).resolve().parent
CHECKS = Path(os.environ.get("MUTSWEEP_VERIF", str(HERE)))   # a frozen copy of the checks keeps one sweep consistent
REPO = Path(os.environ.get("MUTSWEEP_BASE", "/repo"))   # a frozen snapshot keeps offsets valid while /repo moves on
WORK = Path(os.environ.get("MUTSWEEP_WORK", "/tmp/mutsweep"))
KNOWN_FAIL = [
    "tests/test_cli_annotate.py::TestAnnotate::test_to_read_only_file_forbidden",
    "tests/test_cli_main.py::TestMain::test_help_is_default",
    "tests/test_lint.py::test_lint_read_errors",
    "tests/test_lint.py::test_lint_lines_read_errors",
    "tests/test_project.py::test_reuse_info_of_uncommentable_file",
    "tests/test_report.py::TestGenerateProjectReport::test_read_error",
    "tests/test_report.py::TestProjectSubsetReport::test_read_error",
]
SKIP_FILES = {"__main__.py", "i18n.py", "types.py", "exceptions.py"}
CMP = {ast.Eq: "!=", ast.NotEq: "==", ast.Lt: "<=", ast.LtE: "<", ast.Gt: ">=", ast.GtE: ">", ast.In: "not in", ast.NotIn: "in",
       ast.Is: "is not", ast.IsNot: "is"}
UNWRAP_METHODS = {"strip", "rstrip", "lstrip", "lower", "upper", "resolve", "absolute", "copy", "as_posix", "casefold"}
UNWRAP_FUNCS = {"sorted": "list", "set": "list", "frozenset": "set", "tuple": "list", "reversed": "list"}


class Gen(ast.NodeVisitor):
    def __init__(self, rel: str, src: bytes):
        self.rel, self.src = rel, src
        self.lines = src.split(b"\n")
        self.starts = [0]
        for ln in self.lines:
            self.starts.append(self.starts[-1] + len(ln) + 1)
        self.out: list[dict] = []
        self.scope: list[str] = []
        self.in_deco = False

    def off(self, line: int, col: int) -> int:
        return self.starts[line - 1] + col

    def span(self, n: ast.AST) -> tuple[int, int]:
        return self.off(n.lineno, n.col_offset), self.off(n.end_lineno, n.end_col_offset)

    def text(self, n: ast.AST) -> str:
        a, b = self.span(n)
        return self.src[a:b].decode("utf-8")

    def emit(self, op: str, n: ast.AST, new: str, a: int | None = None, b: int | None = None) -> None:
        sa, sb = self.span(n)
        a = sa if a is None else a
        b = sb if b is None else b
        old = self.src[a:b].decode("utf-8")
        if old == new:
            return
        self.out.append({"file": self.rel, "line": n.lineno, "op": op, "a": a, "b": b, "old": old[:200], "new": new,
                         "fn": ".".join(self.scope) or "<module>"})

    # -- scopes
    def visit_FunctionDef(self, n):
        for d in n.decorator_list:
            self.in_deco = True
            self.visit(d)
            self.in_deco = False
        self.scope.append(n.name)
        for a in n.args.defaults + [d for d in n.args.kw_defaults if d is not None]:
            self.visit(a)
        body = n.body
        if body and isinstance(body[0], ast.Expr) and isinstance(body[0].value, ast.Constant) and isinstance(body[0].value.value, str):
            body = body[1:]
        for st in body:
            self.visit(st)
        self.scope.pop()

    visit_AsyncFunctionDef = visit_FunctionDef

    def visit_ClassDef(self, n):
        self.scope.append(n.name)
        for st in n.body:
            if isinstance(st, ast.Expr) and isinstance(st.value, ast.Constant):
                continue
            self.visit(st)
        self.scope.pop()

    # -- operators
    def _neg(self, test: ast.AST):
        if isinstance(test, ast.UnaryOp) and isinstance(test.op, ast.Not):
            self.emit("NEG", test, self.text(test.operand))
        else:
            self.emit("NEG", test, f"not ({self.text(test)})")

    def visit_If(self, n):
        t = ast.unparse(n.test)
        if "TYPE_CHECKING" not in t and "__name__" not in t:
            self._neg(n.test)
        self.generic_visit(n)

    def visit_While(self, n):
        if not isinstance(n.test, ast.Constant):
            self._neg(n.test)
        self.generic_visit(n)

    def visit_IfExp(self, n):
        self._neg(n.test)
        self.generic_visit(n)

    def visit_comprehension(self, n):
        for c in n.ifs:
            self._neg(c)
        self.generic_visit(n)

    def visit_Assert(self, n):
        return

    def visit_Compare(self, n):
        if len(n.ops) == 1 and type(n.ops[0]) in CMP:
            left_end = self.off(n.left.end_lineno, n.left.end_col_offset)
            right_start = self.off(n.comparators[0].lineno, n.comparators[0].col_offset)
            mid = self.src[left_end:right_start].decode("utf-8")
            if "(" not in mid and ")" not in mid and "\n" not in mid:
                self.emit("CMP", n, f" {CMP[type(n.ops[0])]} ", left_end, right_start)
        self.generic_visit(n)

    def visit_BoolOp(self, n):
        # swap the first operator occurrence between the first two operands
        a = self.off(n.values[0].end_lineno, n.values[0].end_col_offset)
        b = self.off(n.values[1].lineno, n.values[1].col_offset)
        mid = self.src[a:b].decode("utf-8")
        old, new = ("and", "or") if isinstance(n.op, ast.And) else ("or", "and")
        if mid.count(old) == 1 and "(" not in mid and ")" not in mid:
            self.emit("BOOL", n, mid.replace(old, new), a, b)
        # drop one operand
        if len(n.values) == 2 and not self.in_deco:
            self.emit("DROPOPERAND", n, self.text(n.values[0]))
            self.emit("DROPOPERAND", n, self.text(n.values[1]))
        self.generic_visit(n)

    def visit_Constant(self, n):
        if self.in_deco and not isinstance(n.value, bool):
            return
        if isinstance(n.value, bool):
            self.emit("CONST", n, "False" if n.value else "True")
        elif isinstance(n.value, int):
            self.emit("CONST", n, str(n.value + 1))
            if n.value > 0:
                self.emit("CONST", n, str(n.value - 1))
        elif n.value is None:
            pass

    def visit_Expr(self, n):
        v = n.value
        if isinstance(v, ast.Constant):
            return
        if isinstance(v, ast.Call):
            t = ast.unparse(v.func)
            if not t.startswith(("_LOGGER.", "logging.", "warnings.", "super().__init__")):
                self.emit("DEL", n, "pass")
        self.generic_visit(n)

    def visit_AugAssign(self, n):
        self.emit("DEL", n, "pass")
        self.generic_visit(n)

    def visit_Assign(self, n):
        if any(isinstance(t, (ast.Subscript, ast.Attribute)) for t in n.targets) and self.scope:
            self.emit("DEL", n, "pass")
        self.generic_visit(n)

    def visit_Continue(self, n):
        self.emit("DEL", n, "pass")

    def visit_Break(self, n):
        self.emit("DEL", n, "pass")

    def visit_Raise(self, n):
        self.emit("DEL", n, "pass")
        self.generic_visit(n)

    def visit_Return(self, n):
        if n.value is not None and isinstance(n.value, ast.Constant) and isinstance(n.value.value, bool):
            pass  # covered by CONST
        self.generic_visit(n)

    def visit_Call(self, n):
        ft = ast.unparse(n.func)
        if not ft.startswith(("_LOGGER.", "logging.", "_(", "click.echo")) or True:
            for k in n.keywords:
                if k.arg is None:
                    continue
                if ft in ("_", "str.format") or ft.endswith(".format"):
                    continue
                # remove one keyword argument (with its separating comma)
                ka = self.off(k.value.lineno, k.value.col_offset) - len(k.arg) - 1
                kb = self.off(k.value.end_lineno, k.value.end_col_offset)
                if self.src[ka:ka + len(k.arg) + 1].decode("utf-8") != k.arg + "=":
                    continue
                rest = self.src[kb:kb + 40].decode("utf-8", "replace")
                stripped = rest.lstrip()
                if stripped.startswith(","):
                    kb += len(rest) - len(stripped) + 1
                elif (n.args or len(n.keywords) > 1):
                    # last argument without trailing comma: remove the comma before it
                    before = self.src[:ka].decode("utf-8", "replace").rstrip()
                    if before.endswith(","):
                        ka = len(before.encode("utf-8")) - 1
                    else:
                        continue
                if ft.startswith(("click.", "main.command")) and k.arg in ("help", "metavar", "name", "short_help", "epilog"):
                    continue
                self.emit("KW", n, "", ka, kb)
        if isinstance(n.func, ast.Attribute) and n.func.attr in UNWRAP_METHODS and not n.args and not n.keywords:
            self.emit("UNWRAP", n, self.text(n.func.value))
        if isinstance(n.func, ast.Name) and n.func.id in UNWRAP_FUNCS and len(n.args) == 1 and not n.keywords:
            a, b = self.span(n.func)
            self.emit("UNWRAP", n, UNWRAP_FUNCS[n.func.id], a, b)
        self.generic_visit(n)

    def visit_UnaryOp(self, n):
        if isinstance(n.op, ast.USub) and isinstance(n.operand, ast.Constant):
            return
        self.generic_visit(n)


def gen() -> int:
    WORK.mkdir(parents=True, exist_ok=True)
    muts = []
    for p in sorted((REPO / "src/reuse").rglob("*.py")):
        if p.name in SKIP_FILES:
            continue
        src = p.read_bytes()
        g = Gen(str(p.relative_to(REPO)), src)
        g.visit(ast.parse(src))
        for m in g.out:
            new_src = src[:m["a"]] + m["new"].encode("utf-8") + src[m["b"]:]
            try:
                ast.parse(new_src)
            except SyntaxError:
                continue
            muts.append(m)
    # stable ids
    seen = set()
    out = []
    for m in muts:
        key = (m["file"], m["a"], m["b"], m["new"])
        if key in seen:
            continue
        seen.add(key)
        m["id"] = f"M{len(out):04d}"
        out.append(m)
    (WORK / "mutants.jsonl").write_text("".join(json.dumps(m) + "\n" for m in out), encoding="utf-8")
    by = {}
    for m in out:
        by[m["op"]] = by.get(m["op"], 0) + 1
    print(len(out), "mutants", by)
    return 0


# ---------------------------------------------------------------------------------------------- second operator family
ATTR_SWAP = {"copyright_lines": "contributor_lines", "contributor_lines": "copyright_lines", "files_without_licenses": "files_without_copyright",
             "files_without_copyright": "files_without_licenses", "missing_licenses": "bad_licenses", "bad_licenses": "missing_licenses",
             "unused_licenses": "deprecated_licenses", "deprecated_licenses": "unused_licenses", "include_submodules": "include_meson_subprojects",
             "include_meson_subprojects": "include_submodules", "source_path": "path", "stem": "name", "suffix": "name", "start": "end",
             "can_handle_single": "can_handle_multi", "can_handle_multi": "can_handle_single", "licenses_without_extension": "licenses",
             "SINGLE_LINE": "INDENT_AFTER_SINGLE", "is_file": "is_dir", "is_dir": "is_file", "read_errors": "files_without_licenses"}
NAME_SWAP = {"before": "after", "after": "before", "single_line": "multi_line", "multi_line": "single_line", "include_submodules": "include_meson_subprojects",
             "include_meson_subprojects": "include_submodules", "copyrights": "contributors", "contributors": "copyrights", "header": "text",
             "ignore_start": "ignore_end", "ignore_end": "ignore_start", "lic": "file", "licenses": "copyrights"}


class Gen2(Gen):
    """Guard removal, argument swaps, confusable attributes / names (what a hurried edit gets wrong)."""

    def visit_If(self, n):
        last = n.body[-1]
        if not n.orelse and isinstance(last, (ast.Raise, ast.Return, ast.Continue, ast.Break)) and "TYPE_CHECKING" not in ast.unparse(n.test):
            self.emit("IFDEL", n, "pass")
        ast.NodeVisitor.generic_visit(self, n)

    def visit_While(self, n):
        ast.NodeVisitor.generic_visit(self, n)

    def visit_IfExp(self, n):
        # swap the two arms
        self.emit("ARMSWAP", n, f"{self.text(n.orelse)} if {self.text(n.test)} else {self.text(n.body)}")
        ast.NodeVisitor.generic_visit(self, n)

    def visit_comprehension(self, n):
        # drop a filter clause
        ast.NodeVisitor.generic_visit(self, n)

    def visit_Compare(self, n):
        ast.NodeVisitor.generic_visit(self, n)

    def visit_BoolOp(self, n):
        ast.NodeVisitor.generic_visit(self, n)

    def visit_Constant(self, n):
        return

    def visit_Expr(self, n):
        ast.NodeVisitor.generic_visit(self, n)

    def visit_AugAssign(self, n):
        ast.NodeVisitor.generic_visit(self, n)

    def visit_Assign(self, n):
        ast.NodeVisitor.generic_visit(self, n)

    def visit_Continue(self, n):
        return

    def visit_Break(self, n):
        return

    def visit_Raise(self, n):
        ast.NodeVisitor.generic_visit(self, n)

    def visit_Call(self, n):
        ft = ast.unparse(n.func)
        if not self.in_deco and len(n.args) >= 2 and not any(isinstance(a, ast.Starred) for a in n.args[:2]) \
                and not ft.startswith(("_LOGGER.", "logging.", "_", "isinstance", "getattr", "setattr", "hasattr")):
            a0, a1 = n.args[0], n.args[1]
            s0, e0 = self.span(a0)
            s1, e1 = self.span(a1)
            if e0 <= s1:
                mid = self.src[e0:s1].decode("utf-8")
                self.emit("ARGSWAP", n, self.text(a1) + mid + self.text(a0), s0, e1)
        ast.NodeVisitor.generic_visit(self, n)

    def visit_Attribute(self, n):
        if n.attr in ATTR_SWAP and not self.in_deco:
            end = self.off(n.end_lineno, n.end_col_offset)
            start = end - len(n.attr.encode("utf-8"))
            if self.src[start:end].decode("utf-8") == n.attr:
                self.emit("ATTRSWAP", n, ATTR_SWAP[n.attr], start, end)
        ast.NodeVisitor.generic_visit(self, n)

    def visit_Name(self, n):
        if n.id in NAME_SWAP and isinstance(n.ctx, ast.Load) and not self.in_deco:
            self.emit("NAMESWAP", n, NAME_SWAP[n.id])

    def visit_Subscript(self, n):
        # slice bounds: x[a:] -> x[a + 1:], x[:b] -> x[:b - 1]
        sl = n.slice
        if isinstance(sl, ast.Slice):
            if sl.lower is not None and not isinstance(sl.lower, ast.Constant):
                self.emit("SLICE", sl.lower, f"{self.text(sl.lower)} + 1")
            if sl.upper is not None and not isinstance(sl.upper, ast.Constant):
                self.emit("SLICE", sl.upper, f"{self.text(sl.upper)} - 1")
        ast.NodeVisitor.generic_visit(self, n)

    def visit_UnaryOp(self, n):
        ast.NodeVisitor.generic_visit(self, n)


def gen2() -> int:
    WORK.mkdir(parents=True, exist_ok=True)
    out = []
    seen = set()
    for p in sorted((REPO / "src/reuse").rglob("*.py")):
        if p.name in SKIP_FILES:
            continue
        src = p.read_bytes()
        g = Gen2(str(p.relative_to(REPO)), src)
        g.visit(ast.parse(src))
        for m in g.out:
            new_src = src[:m["a"]] + m["new"].encode("utf-8") + src[m["b"]:]
            try:
                ast.parse(new_src)
            except SyntaxError:
                continue
            key = (m["file"], m["a"], m["b"], m["new"])
            if key in seen:
                continue
            seen.add(key)
            m["id"] = f"N{len(out):04d}"
            out.append(m)
    (WORK / "mutants.jsonl").write_text("".join(json.dumps(m) + "\n" for m in out), encoding="utf-8")
    by = {}
    for m in out:
        by[m["op"]] = by.get(m["op"], 0) + 1
    print(len(out), "mutants", by)
    return 0


def make_worker(i: int) -> Path:
    w = WORK / f"w{i}"
    if w.exists():
        shutil.rmtree(w)
    shutil.copytree(REPO, w, ignore=shutil.ignore_patterns(".git", "__pycache__", "*.pyc", ".pytest_cache", "docs", "po"))
    return w


def run_one(m: dict, w: Path) -> dict:
    path = w / m["file"]
    orig = (REPO / m["file"]).read_bytes()
    path.write_bytes(orig[:m["a"]] + m["new"].encode("utf-8") + orig[m["b"]:])
    res = dict(m)
    try:
        env = dict(os.environ, PYTHONPATH=str(w / "src"), PYTHONDONTWRITEBYTECODE="1")
        env.pop("VERIF_REPO", None)
        cmd = ["/venv/bin/python", "-m", "pytest", "-q", "-x", "-p", "no:cacheprovider", "--timeout=120", "-o", "addopts=--doctest-modules"]
        for d in KNOWN_FAIL:
            cmd += ["--deselect", d]
        try:
            cp = subprocess.run(cmd, cwd=str(w), env=env, capture_output=True, text=True, timeout=600)
            tail = (cp.stdout.strip().splitlines() or [""])[-1]
            res["suite_rc"] = cp.returncode
            res["suite"] = tail[-120:]
        except subprocess.TimeoutExpired:
            res["suite_rc"] = 124
            res["suite"] = "timeout"
        if res["suite_rc"] != 0:
            res["status"] = "killed"
            return res
        res["status"] = "survived"
        checks = {}
        env2 = dict(os.environ, VERIF_REPO=str(w), VERIF_SELFTEST="1")
        for i in range(1, 21):
            pid = f"C{i:02d}"
            cp = subprocess.run(["/venv/bin/python", str(CHECKS / "check.py"), pid, "--tier", "quick"], capture_output=True, text=True,
                                env=env2, cwd=str(CHECKS))
            out = cp.stdout + cp.stderr
            if cp.returncode == 0 and "VIOLATION" not in out:
                continue
            rules = sorted({l.split()[1] for l in out.splitlines() if l.startswith("REPORT ")})
            first = next((l for l in out.splitlines() if l.startswith(("REPORT ", "ANALYSIS-ERROR"))), "")
            checks[pid] = {"rc": cp.returncode, "rules": rules, "first": first[:400]}
        res["checks"] = checks
        return res
    finally:
        path.write_bytes(orig)


def run(jobs: int, only: str | None, limit: int | None, files: str | None) -> int:
    muts = [json.loads(l) for l in (WORK / "mutants.jsonl").read_text(encoding="utf-8").splitlines()]
    done = {}
    resf = WORK / "results.jsonl"
    if resf.exists():
        for l in resf.read_text(encoding="utf-8").splitlines():
            r = json.loads(l)
            done[r["id"]] = r
    todo = [m for m in muts if m["id"] not in done and (only is None or m["op"] == only) and (files is None or files in m["file"])]
    import random
    random.Random(7).shuffle(todo)   # partial results are a uniform sample
    if limit:
        todo = todo[:limit]
    print(len(todo), "to run,", len(done), "done", flush=True)
    q: Queue = Queue()
    for i in range(jobs):
        q.put(make_worker(i))

    def job(m):
        w = q.get()
        try:
            r = run_one(m, w)
        except Exception as e:  # noqa: BLE001
            r = dict(m, status="error", error=repr(e))
        finally:
            q.put(w)
        return r

    n = 0
    with ThreadPoolExecutor(jobs) as ex, resf.open("a", encoding="utf-8") as out:
        for r in ex.map(job, todo):
            out.write(json.dumps(r) + "\n")
            out.flush()
            n += 1
            if n % 50 == 0:
                print(n, "done", flush=True)
    for i in range(jobs):
        shutil.rmtree(WORK / f"w{i}", ignore_errors=True)
    return 0


def report(fname: str = "results.jsonl") -> int:
    rs = [json.loads(l) for l in (WORK / fname).read_text(encoding="utf-8").splitlines()]
    killed = [r for r in rs if r["status"] == "killed"]
    surv = [r for r in rs if r["status"] == "survived"]
    fired = [r for r in surv if any(c["rc"] == 1 for c in r["checks"].values())]
    undec = [r for r in surv if r not in fired and any(c["rc"] == 2 for c in r["checks"].values())]
    silent = [r for r in surv if not r["checks"]]
    print(f"{len(rs)} mutants: {len(killed)} killed by the suite, {len(surv)} survived: {len(fired)} violation, {len(undec)} undecided only, {len(silent)} silent")
    for title, lst in (("VIOLATION", fired), ("UNDECIDED", undec), ("SILENT", silent)):
        print(f"\n== {title}")
        for r in lst:
            rules = sorted({x for c in r["checks"].values() for x in c["rules"]})
            u = sorted(p for p, c in r["checks"].items() if c["rc"] == 2)
            print(f"{r['id']} {r['op']:11s} {r['file'].replace('src/reuse/', '')}:{r['line']} {r['fn']} | {r['old'][:60]!r} -> {r['new'][:60]!r} | {' '.join(rules)} {('U:' + ','.join(u)) if u else ''}")
    return 0


def recheck(jobs: int) -> int:
    """Second pass: the survivors of a finished sweep (taken on a frozen base with a frozen copy of the checks) are applied to
    the CURRENT /repo - offsets mapped through a diff of the two versions of each file - and judged by the CURRENT checks.
    Mutants whose region was changed by a repair are dropped."""
    import difflib
    old_base = Path(os.environ.get("MUTSWEEP_BASE", "/repo"))
    new_base = Path(os.environ.get("MUTSWEEP_NEWBASE", "/repo"))
    rs = [json.loads(l) for l in (WORK / "results.jsonl").read_text(encoding="utf-8").splitlines()]
    surv = [r for r in rs if r["status"] == "survived"]
    maps: dict[str, list] = {}

    def mapper(f: str):
        if f not in maps:
            a = (old_base / f).read_bytes()
            b = (new_base / f).read_bytes()
            sm = difflib.SequenceMatcher(None, a.split(b"\n"), b.split(b"\n"), autojunk=False)
            # line-level equal blocks -> byte offsets
            al, bl = a.split(b"\n"), b.split(b"\n")
            ao = [0]
            for ln in al:
                ao.append(ao[-1] + len(ln) + 1)
            bo = [0]
            for ln in bl:
                bo.append(bo[-1] + len(ln) + 1)
            blocks = [(ao[i], ao[i + n], bo[j]) for i, j, n in sm.get_matching_blocks() if n]
            maps[f] = blocks
        return maps[f]

    todo = []
    dropped = 0
    for r in surv:
        blocks = mapper(r["file"])
        hit = next(((s0, e0, t0) for s0, e0, t0 in blocks if s0 <= r["a"] and r["b"] <= e0), None)
        if hit is None:
            dropped += 1
            continue
        m = dict(r)
        m["a"] = r["a"] - hit[0] + hit[2]
        m["b"] = r["b"] - hit[0] + hit[2]
        m.pop("checks", None)
        todo.append(m)
    out_f = WORK / "recheck.jsonl"
    done = set()
    if out_f.exists():
        done = {json.loads(l)["id"] for l in out_f.read_text(encoding="utf-8").splitlines()}
    todo = [m for m in todo if m["id"] not in done]
    print(len(surv), "survivors,", dropped, "dropped (region repaired),", len(todo), "to re-check", flush=True)
    q: Queue = Queue()
    for i in range(jobs):
        w = WORK / f"r{i}"
        if w.exists():
            shutil.rmtree(w)
        shutil.copytree(new_base / "src", w / "src", ignore=shutil.ignore_patterns("__pycache__", "*.pyc"))
        q.put(w)

    def job(m):
        w = q.get()
        path = w / m["file"]
        orig = (new_base / m["file"]).read_bytes()
        try:
            new_src = orig[:m["a"]] + m["new"].encode("utf-8") + orig[m["b"]:]
            try:
                ast.parse(new_src)
            except SyntaxError:
                return dict(m, status="unmappable")
            path.write_bytes(new_src)
            checks = {}
            env2 = dict(os.environ, VERIF_REPO=str(w), VERIF_SELFTEST="1")
            for i in range(1, 21):
                pid = f"C{i:02d}"
                cp = subprocess.run(["/venv/bin/python", str(CHECKS / "check.py"), pid, "--tier", "quick"], capture_output=True, text=True,
                                    env=env2, cwd=str(CHECKS))
                o = cp.stdout + cp.stderr
                if cp.returncode == 0 and "VIOLATION" not in o:
                    continue
                rules = sorted({l.split()[1] for l in o.splitlines() if l.startswith("REPORT ")})
                first = next((l for l in o.splitlines() if l.startswith(("REPORT ", "ANALYSIS-ERROR"))), "")
                checks[pid] = {"rc": cp.returncode, "rules": rules, "first": first[:400]}
            return dict(m, status="survived", checks=checks)
        finally:
            path.write_bytes(orig)
            q.put(w)

    n = 0
    with ThreadPoolExecutor(jobs) as ex, out_f.open("a", encoding="utf-8") as out:
        for r in ex.map(job, todo):
            out.write(json.dumps(r) + "\n")
            out.flush()
            n += 1
            if n % 50 == 0:
                print(n, "done", flush=True)
    for i in range(jobs):
        shutil.rmtree(WORK / f"r{i}", ignore_errors=True)
    return 0


if __name__ == "__main__":
    ap = argparse.ArgumentParser()
    ap.add_argument("cmd", choices=["gen", "gen2", "run", "report", "recheck"])
    ap.add_argument("--file", default="results.jsonl")
    ap.add_argument("-j", type=int, default=16)
    ap.add_argument("-k", default=None)
    ap.add_argument("-n", type=int, default=None)
    ap.add_argument("-f", default=None)
    a = ap.parse_args()
    sys.exit({"gen": gen, "gen2": gen2, "run": lambda: run(a.j, a.k, a.n, a.f), "report": lambda: report(a.file), "recheck": lambda: recheck(a.j)}[a.cmd]())
