#!/venv/bin/python
"""Regenerate MANIFEST.json from the table below (run after adding a check)."""
import json
from pathlib import Path

HERE = Path(__file__).resolve().parent
PY = "/venv/bin/python /verif/check.py"

HYGIENE = (" On every function these rules pass through (and its callees) twelve exact Python-semantics lints run as rule H"
           " (sa/hygiene.py, DESIGN §8.2c): no state kept in a mutable default argument, no single-pass iterator consumed twice or inside"
           " a loop (also across a call), no stored closure over a loop variable, no regex flag in a count/maxsplit position, no"
           " comprehension clause reading a name bound by a later clause, no table entries glued by a missing comma, no enum alias, no"
           " click option whose kind disagrees with the annotated parameter it fills, no text-mode file I/O without an explicit encoding, no class table attribute that is a string where its siblings have a sequence, no name left unbound by a handler that swallows an exception, no `if …: pass` check without consequence. The inventory of indirection on the same scope (decorators, special methods, overrides, class / field options, bases, library callbacks, import-time statements; sa/inventory.py, DESIGN §8.2d) must equal the confirmed one - a deviation is reported as not decided (exit 2), never as a violation. A report about a function that delegates to a helper the confirmed tree does not have and that could not be read in place is likewise an undecided clause naming the helper (sa/gate.py, DESIGN §8.6 round 14).")

# property -> (technique, level text, level note, design ref)
CHECKS: dict[str, tuple[str, str, str, str]] = {
    "C01": (
        "AST decision-table tabulation (abstract interpretation over opaque atoms) + truth-table equivalence",
        "Decides the structural wiring of the lint verdict on every path of the analysed functions:"
        " is_compliant == NOR of the 8 issue collections (category set derived from the class),"
        " exit status 0 iff compliant on all output paths, the per-result effect table of"
        " ProjectReport.generate, the files_without_* filters and the all-sources construction of the"
        " per-file fields. This is a necessary condition of the behavioural property, decided for all"
        " paths; it is not a proof that extraction/coverage underneath is right for every tree. Also shares C03's decision table of is_path_ignored (which files are covered at all). The LicenseRef- language equals LicenseRef-[A-Za-z0-9.-]+ (regular-language equality, shared with C06). The precedence table of Project.reuse_info_of (what is attributed to a file) is shared with C04. Inherits every rule of the layers it is stated over (C02 reading, C03 covered set, C04 attribution, C05 globs, C06 inventory, C12 ignore blocks; DESIGN §8.2b).",
        "Trusted: CPython ast, the tabulator (sa/tab.py). Not decided: lower layers (C02-C06).",
        "DESIGN.md §3 C01",
    ),
    "C03": (
        "regular-language equivalence (regex AST -> NFA/DFA product) + decision-table tabulation + forwarding dataflow",
        "Decides, for file/directory names of any length, that the folded ignore tables denote exactly the"
        " specified name languages (DFA product with shortest witness), that is_path_ignored's decision"
        " table over 19 opaque atoms equals the specified exclusion predicate on every path, that iter_files"
        " prunes/yields accordingly, that every call chain enumerating files forwards the include flags, the"
        " VCS strategy and the subset unchanged, and that VCS readers' flags and separators agree. Necessary"
        " structural conditions decided for all paths/names; Git's own ignore answer is an external run-time"
        " oracle and is not decided. VCS membership tests (is_ignored / is_submodule of every strategy) compare paths of the same base (units-of-measure check: query made root-relative, collected sets root-relative); the report's file list is subset_files(F) whenever F was given, even empty. Paths printed by VCS commands keep their exact spelling (no whitespace strip, no lossy decode). FileReport equality, if defined, includes the file's full path (reports are collected in a set). The argv of git's ignored-files query equals the confirmed flag set, and VCS commands inherit the caller's environment (env= must extend os.environ). is_submodule answers from the VCS's own list only (no probe of the tree). A VCS strategy keeps the project root spelled as given (not resolved, not made absolute), so that relative queries and collected sets share one base. Strategies that know the tracked files (Jujutsu, Pijul) answer 'ignored' exactly for untracked paths; every VCS listing is taken in the project root (cwd forwarded to the child process). A path that is neither a regular file nor a directory is not a covered file.",
        "Trusted: CPython ast, re._parser, sa/relang.py, sa/tab.py, sa/fold.py. Names exclude '/' and NUL (line breaks included: `$` is modelled as CPython applies it, also before one final newline).",
        "DESIGN.md §3 C03",
    ),
    "C05": (
        "transducer extraction by conditional constant propagation + automata language inclusion",
        "The glob translator is extracted from the source as an exact finite-state transducer; for every glob over"
        " {a . / * \\} up to length 5 (quick) / 8 plus 60k seeded random globs to length 16 (thorough) the produced"
        " regular expression is compared, for paths of any length, with the narrowest and widest reading of the"
        " specification by language inclusion. Bounded in the glob length only; the path quantifier is unbounded."
        " Decides the translation and the matcher wiring, not tomlkit or pathlib behaviour. The selection of the annotation table is a decision table whose outcome depends only on whether some table matches the POSIX path. The attrs converter of AnnotationsItem.paths hands every glob on verbatim (no strip, no case change, no path normalisation).",
        "Trusted: CPython ast, re._parser (assumed to describe what re compiles), sa/transducer.py, sa/relang.py."
        " Known finding (class B) is recognised by language equality with a frozen defect model, so any other"
        " deviation is still a violation.",
        "DESIGN.md §3 C05",
    ),
    "C17": (
        "effect-order tabulation + constant agreement + automata equivalence of (converter summary ∘ extracted transducer) vs DEP5 language",
        "Decides the command's effect table (refusal before any effect; REUSE.toml written before dep5 is unlinked on"
        " every path), agreement of the converter's constants with the reader's (precedence = AGGREGATE, TOML keys,"
        " version, line splitting, paragraph order - including a lint that nothing sorts, reverses, slices or re-assigns the"
        " table list between its construction and the dump, since both formats let the last match win), and - for every legal dep5 glob over {a / * ? \\} up to length"
        " 5 (quick) / 7 (thorough) and paths of any length - equality of the DEP5 glob language with the language"
        " of the converted glob under the extracted REUSE.toml matcher. Equality of whole lint reports is not decided. The converter writes the accessor of paragraph.license that the dep5 reader parses (sibling agreement), and every reader calls the shared expression parser with the same options. On the exceptional path where the write of REUSE.toml fails nothing is removed. Inherits C05 (the matcher that interprets the converted globs).",
        "Trusted: ast, re._parser, stdlib re applied to the two folded converter constants, DEP5's documented glob"
        " semantics for python-debian, sa/transducer.py, sa/relang.py. Known findings are recognised by equality"
        " with a frozen defect model.",
        "DESIGN.md §3 C17",
    ),
    "C02": (
        "constant folding of reader/writer tables + regex syntax-tree shape + language-intersection emptiness + path tabulation",
        "Decides necessary structural conditions of exact tag reading: every multi-line terminator of the 29 folded"
        " comment styles and the special endings belong to L(_END_PATTERN); the tag patterns have the shape"
        " ^(.*?)TAG:[ \\t]+(.*?)END; no string of the SPDX-expression language ends in a terminator or in a mirrored"
        " line prefix (automata intersection, witness reported); the yielded value passes only through strip() and the"
        " guarded frame slice; the 4 KiB / snippet / seek(0) table, parse-error => empty info, replace-decoding."
        " A terminator followed by trailing blanks is still stripped; the reader is given text only (not the comment syntax),"
        " so a free-text value ending in any terminator loses it (R9, recorded finding). Regex backtracking details are not decided. The expression parser is built without a symbol table, so identifiers are kept exactly as written (no case folding, no canonical respelling; shared with C06-R5).",
        "Trusted: ast, re._parser, sa/fold.py, sa/relang.py, sa/tab.py. The order hazard in _END_PATTERN is decided under C14.",
        "DESIGN.md §3 C02",
    ),
    "C12": (
        "interval lint on str.index results + branch-table tabulation against the specified table (index-and-recurse family) or regex syntax-tree shape (substitution family) + filter-first dataflow",
        "Decides that no str.index/find result whose range includes 0 is tested by truthiness (package-wide), that"
        " which part filter_ignore_block keeps depends only on marker presence/order exactly as specified (joint"
        " decision-tree exploration; dependence on any other condition is a violation), and that every tag search"
        " runs on the filtered text. The slice arithmetic itself (string indices for every interleaving) is not decided. Each file's window is decoded once, returned with line endings folded and nothing else, and filtered as one text (window rule shared with C02). A filter written as ONE regular-expression substitution is decided by the shape of its pattern (START .*? (END | end of text), DOTALL, count 0, empty replacement); any other rewrite is not decided (exit 2).",
        "Trusted: ast, sa/tab.py, sa/fold.py, re._parser.",
        "DESIGN.md §3 C12",
    ),
    "C04": (
        "path-sensitive decision/effect tabulation compared cell by cell with the specified precedence table",
        "The property is a finite table. It is extracted from Project.reuse_info_of over the atoms {global licensing,"
        " override, binary, file-info, file-copyright, file-licence, closest} with the ordered effect trace (read /"
        " extend / append) and compared with the specification on every path (joint lazy decision-tree exploration);"
        " likewise FILE.license shadowing, last-match-wins inside one REUSE.toml, the depth-sorted top-down walk that"
        " stops at the first override, the closest clean-up as a complete 4-state x 4-element flag machine, dep5 ="
        " AGGREGATE with named source, and dep5/REUSE.toml exclusivity. REUSE.toml discovery receives the project's coverage options unchanged (shared with C03). Inherits C05 (glob matching).",
        "Trusted: ast, sa/tab.py. ReuseInfo's helper predicates are mapped to formulas here and decided in C09.",
        "DESIGN.md §3 C04",
    ),
    "C20": (
        "writer-table vs reader-table agreement on folded constants + decision-table tabulation + DFA equivalence of the year language",
        "For each of the 10 folded prefix styles x 6 year spellings x 4 holder shapes the first matching folded reader"
        " pattern must report exactly that prefix, year and holder (constants evaluated against constants with the"
        " standard library's re; no repository code runs); the year group's language equals YYYY | YYYY ?- ?YYYY"
        " (DFA equivalence); make_copyright_line's decision table and get_year's table equal the specified ones on"
        " every path; the parse loop stores every line that matches a pattern exactly once for merging and stores nothing"
        " else; the merge loop produces one notice per parsed statement with min..max over the whole group."
        " Arbitrary holder strings and year arithmetic on arbitrary sets are not decided.",
        "Trusted: ast, stdlib re on folded constants, sa/fold.py, sa/tab.py, sa/relang.py.",
        "DESIGN.md §3 C20",
    ),
    "C06": (
        "classification tables by path tabulation + who-writes analysis of license_map + truth tables + DFA equivalence + zero-count lint with positive control",
        "Decides the per-identifier cell table of FileReport.generate (plus-form, on-map, provided -> bad / missing /"
        " recorded) against the specification on every path, substitutes the who-writes analysis of"
        " Project.license_map into it and compares with `bad iff neither SPDX nor LicenseRef-` over all cells, the"
        " used/unused comprehensions as boolean formulas, the LICENSES/** scan table (skip, no-extension, stem fallback,"
        " duplicate, register), the LicenseRef- language (DFA equivalence, identifiers of any length), and absence of"
        " case folding on the lint path. license_expression's license_keys (library) is not decided. LICENSES/ entries: bad iff not in the licence map, deprecated iff the map marks it - independent of any other attribute of the entry. The expression parser is built without a symbol table (known symbols would be matched case-insensitively). The whole file name is looked up before the part in front of the last dot (Python-2.0.1 is an identifier without extension, not Python-2.0 with extension .1). Inherits C02, C03, C04 (which identifiers are used at all).",
        "Trusted: ast, sa/tab.py, sa/relang.py, sa/fold.py. Deprecated/bad classification of LICENSES/ entries is in C01-R3.",
        "DESIGN.md §3 C06",
    ),
    "C13": (
        "sibling-agreement analysis of the formatters (rendering loops + guard formulas) + truth tables + exit tabulation",
        "For format_plain, format_lines(+_subset) and the JSON dictionary: every category the verdict consults is"
        " rendered by a loop over that attribute whose enclosing guards are only the category's own truthiness or `not"
        " is_compliant` (guards compared as boolean formulas); JSON counters derive from the same attributes as the"
        " JSON lists; the plain verdict sentence follows is_compliant; ProjectSubsetReport's verdict, filters and"
        " propagation agree with ProjectReport's on the four shared categories and with what format_lines_subset"
        " prints; lint-file exits 0 iff compliant on every path and rejects outside files before generating."
        " In format_plain a section guarded by `if report.X:` lists X and every labelled summary line is computed from its own category (R11)."
        " Textual equality of rendered paths is not decided. The subset report examines subset_files(F) whenever F was given (an empty F is not 'no subset'). Nothing is carried from one examined file to the next (task purity shared with C14). A rendering loop does not range over a re-keyed dictionary that can collapse (identifier, file) pairs. Inherits C03 (covered set). Each output option echoes the text of its own formatter applied to the generated report (decision table of the lint / lint-file commands, R9); format_json hands json.dumps a handler that turns sets into lists and paths into strings (R10); each part of the plain report's file partition is written element by element.",
        "Trusted: ast, sa/tab.py.",
        "DESIGN.md §3 C13",
    ),
    "C18": (
        "path tabulation of the document writer + structural pairing + checksum/ID dataflow + decision tables",
        "Decides on every path of bill_of_materials that both loops range over the same sorted list, that each report"
        " gets one DESCRIBES line and one File section carrying the same spdx_id, the mandatory tag set, <text>"
        " wrapping and the LicenseRef section; that the checksum is hashlib.sha1 over every chunk of the file opened"
        " in binary mode and is never disabled by the spdx command; that SPDXID derives from name and checksum; the"
        " LicenseConcluded table (NOASSERTION / NONE / AND of parenthesised expressions, simplified) and the creator"
        " requirement. SHA-1 values and boolean.py's simplify() are library semantics and not decided. Covered files that could not be examined are reported by spdx, not silently omitted (R9, recorded finding). The declared type of --output provides what the body calls on it (click.File lazy=True for every value, `-` included). The covered-file set (ignore-name languages and the is_path_ignored table) is shared with C03. Inherits C02, C03 and C04 (and C05 through C04).",
        "Trusted: ast, sa/tab.py. The file set is decided by C01/C03.",
        "DESIGN.md §3 C18",
    ),
    "C19": (
        "decision/effect tabulation with exceptional edges (typestate: refusal dominates writes; fetch before open)",
        "Decides on every path of put_license_in_file that each file-system effect on the destination is dominated by"
        " the refusal of an existing entry - exists() or a (dangling) symbolic link -, that the network fetch completes before the file is opened (a failed transfer leaves"
        " nothing), that the LicenseRef branch reaches no network call and that download_license is the only network"
        " caller; and for the command: usage errors first, '+' stripped before use, --all = report.missing_licenses,"
        " every failure handler sets a non-zero code and stays in the loop, exit with the accumulated code; and the"
        " default destination as a decision table: <root>/LICENSES/<id>.txt unless the root itself is a LICENSES directory"
        " without VCS (an outcome that depends on any other condition is a violation). Other network faults are not modelled. Inherits C06 (download --all supplies what lint reports missing).",
        "Trusted: ast, sa/tab.py, syntactic table of Path/shutil mutators.",
        "DESIGN.md §3 C19",
    ),
    "C11": (
        "typestate over the tabulated paths with exceptional edges (effects legal only after a successful build)",
        "On every path of add_header_to_file and of the annotate loop: a file-system effect is legal only after the"
        " header builder returned; paths on which the builder raises CommentCreateError / MissingReuseInfoError have no"
        " effect at all and return a non-zero result; skipped files have no effect; per-file results are accumulated"
        " with no early exit and the command exits min(sum, 1); every usage-error pre-flight precedes the loop, raises"
        " click.UsageError and has no effects; every option of a mutex table is declared MutexOption with that"
        " table; the anticipated failures (unsupported form, premature terminator) are raised. Every path of _create_new_header that returns a header has evaluated the post-render check (shared with C07-R1; the recorded `and` defect is a known finding here too). The multi-line writer's refusal table; error handlers apply str.format to constant format strings only. The pre-flight predicates has_style / is_uncommentable are defined through get_comment_style.",
        "Trusted: ast, sa/tab.py, syntactic table of file-system mutators. OS failures of the final write are out of scope; its content-level failure (encoding) is R10: the text is proven encodable before the truncating open.",
        "DESIGN.md §3 C11",
    ),
    "C07": (
        "decision tables + field-pipeline agreement (dataclass / extractor / render kwargs / Jinja2-parsed template) + forwarding dataflow",
        "Decides: the post-render check as a 4-cell table (header rejected iff copyright OR licences read back differ,"
        " evaluated on the very text that is returned); ReuseInfo's set fields = fields the extractor populates ="
        " keyword arguments of template.render ⊆ variables of the default template, with equal tag literals on both"
        " sides; unchanged forwarding of every option along the five-function annotate chain (rename table); the"
        " .license-target and comment-style decision tables; sanity of the folded style tables (29 classes, 261+64"
        " map entries). That rendering plus commenting round-trips every value is run-time behaviour and not decided. Every jinja2 Environment is constructed without autoescape / finalize / extensions (values are written verbatim). The multi-line writer refuses every text containing the style's terminator (whose table entry carries no blanks) and no style overrides the writer methods or their helper predicates. The header finder's predicate sees one comment at a time, never the ignore markers of the whole file (R10, recorded finding); a header redirected to a new .license sibling hides what the file itself declares (R11, recorded finding, shared with C09). Each result of the shared expression parser is None-checked before it is stored or returned (an empty text parses to None; R12, shared with C02 and C04). Inherits C02 (tag reading) and C20 (notice building). Every entry of the extension and file-name tables is found by the key get_comment_style computes for a file of that type (R15); the header finder scans no further than the linter's window reads (R14, recorded finding).",
        "Trusted: ast, sa/tab.py, sa/fold.py, Jinja2's parser (no rendering).",
        "DESIGN.md §3 C07",
    ),
    "C08": (
        "reassembly decision table (flattened f-strings) + order/dataflow checks on the newline, shebang and BOM plumbing",
        "Decides the 12-cell reassembly table of place_header against the blank-line policy; that the file is read raw"
        " (newline=''), line endings are detected before normalisation and the same variable is the newline= of the"
        " write to the same file; that shebang extraction precedes header creation and feeds `before`; that the three"
        " text sections are chained slices of one string; that a BOM is split off before processing and written back"
        " first. Byte-for-byte preservation of arbitrary bodies is run-time string behaviour and not decided. Every comment_at_first_character returns a prefix of its argument (its length is used as the cut offset). A first-line declaration is split off a block only when nothing but blanks precedes that block (decision table of find_and_replace_header). The header text is proven encodable before the truncating open (shared with C11-R10). The file is read strictly (no errors= mode that rewrites undecodable bytes); questions about '\\n' are asked of the normalised text only; the operands of place_header are bound only by the finder, constants and _extract_shebang (another mechanism: not decided, exit 2). The line-ending detector is read as a model (presence priority list or frequency count with CRLF subtracted, over the whole text): presence alone cannot tell an LF file with a stray CR from a CR file. _extract_shebang is held to a structural model (which iterator cuts the text into lines: only a newline ends a line); the loop over a style's SHEBANGS table is left only from a matching branch.",
        "Trusted: ast, sa/tab.py.",
        "DESIGN.md §3 C08",
    ),
    "C09": (
        "data-dependence of the rendered information on both sources (path tabulation) + per-field union table + predicate formulas",
        "Decides on every path of create_header that what reaches the renderer is the union of the existing header's"
        " information and the request (copyright lines: the optionally merged union), that an unparseable existing"
        " header raises instead of being dropped, that ReuseInfo.union covers every set field, copy preserves"
        " unspecified fields, the helper predicates equal their formulas, every .copy() call names only dataclass"
        " fields, --skip-existing has no effect, and the post-render check (shared with C07). Monotonicity over"
        " arbitrary histories of header shapes is not decided. Template environments write re-rendered information verbatim (shared with C07). Redirecting the header to a new .license sibling must carry over what the file declares itself (R9, recorded finding). Inherits C07 and its layers. Content that the header finder does not recognise is handed on unchanged and never discarded (R11, recorded finding for .license side files).",
        "Trusted: ast, sa/tab.py.",
        "DESIGN.md §3 C09",
    ),
    "C15": (
        "effect analysis over the whole-program call graph (callees resolved by mypy as a library) with argument provenance",
        "For every click command the set of file-system mutators reachable in the call graph (dynamic dispatch expanded"
        " to all overrides; attrs hooks, click callbacks, properties and map(container) included; open modes folded)"
        " is a subset of the documented set: none for lint / lint-file / supported-licenses / --help / --version, the"
        " click.File bound to --output for spdx, the one open(path,'w') for annotate, write_text+unlink for"
        " convert-dep5, the four effects on `destination` for download; every spawned process is a literal read-only"
        " VCS query; an effect inside a helper whose target is the helper's own parameter is lifted through every call"
        " site; download's refusal of an existing destination dominates every write (table shared with C19); the written paths derive from the named files / covered children / their .license siblings. This"
        " decides 'which code can touch the tree' for all inputs; OS-level metadata effects and the explicitly named"
        " symlink case are not decided. The project root reported by the VCS is used verbatim. Inherits C03 (recursive annotate touches exactly the covered files).",
        "Trusted: ast, mypy's resolution, table T1, the read-only VCS query whitelist. Unresolved calls are listed in the evidence (floor 25).",
        "DESIGN.md §3 C15",
    ),
    "C16": (
        "exception-escape analysis (bottom-up over the call graph with try/except filtering through class MROs) + validate-before-use",
        "For every click command the set of (exception class, origin) pairs that can leave it - explicit raises and the"
        " content-triggered library exceptions of table T2, filtered through every enclosing try/except/suppress - must"
        " lie within what click turns into a diagnostic; each other pair is a violation unless it is one of nine named,"
        " reasoned infeasible origins whose side conditions are checked. Plus: parsed TOML values are type-checked"
        " before being iterated/indexed, the per-file isolation handler is as broad as Exception, parse errors carry"
        " or receive the file name. OS faults outside the modelled exceptions are not decided. Bytes are decoded with an error mode whose result can be encoded again (no surrogateescape / surrogatepass). str.format is applied to constant format strings only, and a format spec only to str / int / float values (mypy type where not evident); ordering values whose element type is Any counts as a TypeError source. Every REUSE.toml glob - also one whose meaning is unspecified - translates to a well-formed regular expression (shared with C05). Presence of a TOML key is decided by `is None`, never by truthiness; set() over raw converter parameters and constant indices into split text are exception sources (T2). A type check of a value taken from the parsed TOML has a consequence (one of its branches raises or returns).",
        "Trusted: ast, mypy's resolution and MROs, table T2. Known findings are keyed by exception and origin construct.",
        "DESIGN.md §3 C16",
    ),
    "C10": (
        "order taint on the annotate path (mypy types) + style-table ambiguity on the folded tables + writer/finder agreement",
        "Decides that on everything reachable from annotate no value whose order comes from a set or the file system"
        " reaches the rendered header, a regular expression, a first-element choice or Counter.most_common, and that"
        " the three template arguments are sorted (so identical arguments give identical headers under any hash seed);"
        " that for none of the 29 folded comment styles the multi-line opener starts with the single-line marker while"
        " single-line detection runs first (the tool must find the header it wrote); that the comment writer and the"
        " block finder agree; and the no-separator cell of place_header. Byte identity for all bodies is not decided. The year range annotate writes is already in the merger's canonical form (get_year table shared with C20). place_header receives bool(header) as the existing-header flag (shared with C08). Requested --copyright / --contributor texts pass a blank-stripping normalisation on every flow into ReuseInfo (the form the reader returns), else the second run adds the line again. Inherits C07 and C08 and their layers. With --merge-copyrights every path of create_header hands merged lines to the renderer, also the path without an existing header (R10).",
        "Trusted: ast, mypy types, sa/taint.py, sa/fold.py, sa/tab.py, canonisers of table T3.",
        "DESIGN.md §3 C10",
    ),
    "C14": (
        "order-taint analysis (sources by mypy type, propagation with function summaries, sinks) + freshness / shared-state mutation analysis over the per-file task + constant-folder order hazards",
        "Decides that on every function reachable from lint, lint-file, spdx and the pool worker no value whose order"
        " comes from a set, os.walk/glob or an unordered pool reaches a content-affecting sink (regex construction,"
        " first element, first-match loop, most_common, rendered text) without sorted / sort / simplify; that no"
        " module-level constant on the lint path consumes a set in iteration order; that the pool uses the"
        " order-preserving map over the same file list and workers re-create the same state; that nested REUSE.toml"
        " files are ordered by depth; and that every in-place mutation reachable from the per-file task"
        " (_MultiprocessingContainer.__call__) is applied to an object the task created itself (freshness analysis with"
        " return summaries; two named exceptions for the lazy dep5 memo), so no state is carried from one file to the"
        " next. Listing order of output is deliberately not a sink. Independence of cwd and of"
        " the spelling of --root depends on run-time path arithmetic and is not decided. Glob patterns built from run-time paths escape them; sorted() with a key that can tie over a set is an order hazard. VCS membership tests compare paths of the same base and VCS output keeps its spelling and is not decoded lossily (shared with C03). The report drivers do not mutate the Project they are handed (same freshness analysis). Both operands of a path-prefix comparison in the nested REUSE.toml lookup are spelled the same way - as given or normalised (R13). A plain store into a container the scan fills is preceded by a refusal of a second writer on that same container. Inside the LICENSES/ scan every membership test on a container the scan itself fills is about keys the scan never adds, or one of three reads confirmed order-symmetric (R12).",
        "Trusted: ast, mypy types/callees, table T3 (sorted, list.sort, boolean.py simplify sorts operands).",
        "DESIGN.md §3 C14",
    ),
}

PENDING_REASON = "check not implemented yet (build in progress; see DESIGN.md §7)"


def main() -> None:
    props = [json.loads(l) for l in (HERE / "properties.jsonl").read_text().splitlines() if l.strip()]
    checks = []
    na = []
    for p in props:
        pid = p["id"]
        if pid in CHECKS:
            tech, text, note, ref = CHECKS[pid]
            checks.append({
                "property_id": pid,
                "quick_cmd": f"{PY} {pid} --tier quick",
                "thorough_cmd": f"{PY} {pid} --tier thorough",
                "evidence_file": f"/verif/evidence/{pid}.json",
                "replay_cmd_template": f"{PY} --explain {{path}}",
                "engine": "sa",
                "level_claimed": {"category": "other", "text": text + HYGIENE, "design_ref": ref},
                "level_note": note,
                "technique": "static analysis: " + tech,
            })
        else:
            na.append({"property_id": pid, "reason": NA.get(pid, PENDING_REASON)})
    manifest = {
        "version": 1,
        "setup_cmd": "mkdir -p /verif/evidence /verif/replay /verif/.cache",
        "hooks": {
            "guard": "REUSE_VERIF",
            "enable": "no hooks: every check parses /repo's working tree; nothing in reuse is"
                      " imported, built or instrumented",
            "baseline_off_cmd": "cd /repo && /venv/bin/python -m pytest -ra -q -p no:cacheprovider"
                                " --timeout=900 --continue-on-collection-errors",
            "source_commits": [],
            "add_only": True,
        },
        "engines": [
            {"name": "sa", "path": "/verif/sa", "serves_properties": sorted(CHECKS),
             "kind_free_text": "repository-specific static analysis over the parsed source: decision-table"
                               " tabulation, regular-language automata, constant folding, transducer"
                               " extraction, call-graph effects/exception escape, order taint"},
        ],
        "checks": checks,
        "not_applicable": na,
        "notes": "Static analysis only. exit 0 held / 1 VIOLATION / 2 ANALYSIS-ERROR (cannot decide)."
                 " Known findings: /verif/known_findings.json. Self-test: /verif/selftest.py.",
    }
    (HERE / "MANIFEST.json").write_text(json.dumps(manifest, indent=1) + "\n")


NA: dict[str, str] = {}

if __name__ == "__main__":
    main()
